"""C08 — supply series follow the calendar, disruption schedule and configured delays."""
import copy

import numpy as np
from hypothesis import strategies as st

from vlib import model, gen
from vlib.harness import drive, quiet, Violation
from vlib.ref import ref_supply as R

PROPERTY = "C08"
RULE = ("(a) the food-system classes called directly with generated constants (baselines 1e-6..1e9, seasonality vectors, yearly ratios in "
        "[0,3], delays 0..24, waste 0..99 %, horizons 48..120): fish, grazing, feed and biofuel demand, single-cell protein, cellulosic "
        "sugar, seaweed farm area and growth factors, initial stored food; (b) compute_parameters_first_round for drawn (country|world, "
        "options): every series handed to the optimiser is compared element-wise with reference functions written from the documentation "
        "(vlib/ref/ref_supply.py), must have exactly NMONTHS finite non-negative entries, plus metamorphic laws: baseline x k => series x k, "
        "delay + 1 => series shifted by one month, changing the ratio of year y changes only that year's block.  Non-trivial = case with a "
        "non-uniform seasonality or >= 2 distinct yearly ratios, and a non-zero delay; distinct by input hash.")
ASSUMPTIONS = ["relative tolerance 1e-9", "simulation starts in May; year blocks 8, 12, ..., 12, 16 months; for grazing the last simulated year is the extended one (as the code documents)",
               "methane SCP: the documented function delays the ramp once; the shipped code delays it twice (recorded finding, pinned by an existing test)"]
TOL = 1e-9


def close(a, b):
    a, b = np.asarray(a, float), np.asarray(b, float)
    if a.shape != b.shape:
        return False
    s = max(1e-300, float(np.max(np.abs(b))) if b.size else 1.0)
    return bool(np.all(np.abs(a - b) <= TOL * s))


def wellformed(ctx, name, series, n, case):
    a = np.asarray(series, float)
    if a.shape != (n,) or not np.all(np.isfinite(a)) or np.any(a < 0):
        ctx.fail("series-not-one-finite-non-negative-value-per-month:" + name,
                 "%s: shape %r, min %r" % (name, a.shape, float(np.min(a)) if a.size else None), case)


def compare(ctx, name, got, exp, case, extra=""):
    got, exp = np.asarray(got, float), np.asarray(exp, float)
    if not close(got, exp):
        if got.shape != exp.shape:
            ctx.fail("series-has-wrong-length:" + name, "%r vs %r" % (got.shape, exp.shape), case)
        m = int(np.argmax(np.abs(got - exp)))
        ctx.fail("series-differs-from-documented-function:" + name,
                 "%s%s month %d: got %.12g, documented function gives %.12g (first months got %s / expected %s)" %
                 (name, extra, m, got[m], exp[m], np.round(got[:6], 6).tolist(), np.round(exp[:6], 6).tolist()), case)


# ---- (a) direct --------------------------------------------------------------------------------------------------
@st.composite
def direct_case(draw):
    n = draw(st.sampled_from(model.HORIZONS))
    ratios = draw(st.lists(gen.ratio(), min_size=10, max_size=10))
    return dict(
        kind="direct", n=n, baseline=draw(gen.magnitude(-6, 9)), ratios=ratios, seasonality=draw(gen.seasonality()),
        delay=draw(st.sampled_from([0, 1, 2, 2, 3]) | st.integers(0, 24)), dist=draw(st.sampled_from([0.0, 4.96]) | st.floats(0, 99)),
        retail=draw(st.sampled_from([0.0, 24.98]) | st.floats(0, 99)), share=draw(st.sampled_from([1.0, 0.01]) | st.floats(0, 1)),
        slope=draw(st.sampled_from([1.0, 1.0, 0.5, 2.0])), kcals=draw(st.sampled_from([2100.0, 2100.0, 1800.0])),
        months=draw(st.sampled_from([0, 1, 2, 3, 6, 12]) | st.integers(0, 120)), k=draw(st.floats(0.01, 10)),
        fish=draw(st.sampled_from(["zero", "baseline", "nuclear_winter"])), pct=draw(st.sampled_from([0.0, 100.0, 50.0])),
        untouched=draw(st.sampled_from([0.0, 1.0]) | st.floats(0, 1)),
        stocks=draw(st.lists(gen.magnitude(2, 8), min_size=12, max_size=12)), start=draw(st.sampled_from([5, 5, 1, 12, 7])))


def direct(ctx, c):
    from src.food_system.food import Food
    from src.food_system.seafood import Seafood
    from src.food_system.methane_scp import MethaneSCP
    from src.food_system.cellulosic_sugar import CellulosicSugar
    from src.food_system.seaweed import Seaweed
    from src.food_system.stored_food import StoredFood
    from src.food_system.feed_and_biofuels import FeedAndBiofuels
    from src.food_system.meat_and_dairy import MeatAndDairy
    import types
    n = c["n"]
    Food.conversions.set_nutrition_requirements(kcals_daily=c["kcals"], fat_daily=47, protein_daily=51, include_fat=False,
                                                include_protein=False, population=1e7)
    nt = (len(set(np.round(c["seasonality"], 12))) > 1 or len(set(c["ratios"])) > 1) and c["delay"] > 0
    if nt:
        ctx.nontrivial_case(c)
    base = c["baseline"]

    def cp(**kw):
        d = dict(NMONTHS=n, WASTE_DISTRIBUTION=dict(SEAFOOD=c["dist"], SUGAR=c["dist"], CROPS=c["dist"], MEAT=c["dist"], MILK=c["dist"], SEAWEED=c["dist"]),
                 WASTE_RETAIL=c["retail"], POP=1e7, GLOBAL_POP=7.723713182e9, INDUSTRIAL_FOODS_SLOPE_MULTIPLIER=c["slope"],
                 DELAY=dict(INDUSTRIAL_FOODS_MONTHS=c["delay"], SEAWEED_MONTHS=c["delay"], FEED_SHUTOFF_MONTHS=min(c["months"], n),
                            BIOFUEL_SHUTOFF_MONTHS=min(c["months"] // 2, n)))
        d.update(kw)
        return d

    def run(fn):
        try:
            with quiet():
                return fn()
        except AssertionError:
            raise
        except Exception as e:     # noqa: BLE001 - a crash on generated-valid constants means the series is not produced
            import traceback
            fr = [f for f in traceback.extract_tb(e.__traceback__) if "/src/" in f.filename]
            where = "%s:%s" % (fr[-1].filename.split("/src/")[-1], fr[-1].name) if fr else "?"
            ctx.fail("supply-code-raises-on-valid-constants:%s@%s" % (type(e).__name__, where), "%s: %s" % (type(e).__name__, str(e)[:120]), c)
            raise
    # fish
    def fish(b):
        p = cp(ADD_FISH=True, FISH_DRY_CALORIC_ANNUAL=b, FISH_PROTEIN_TONS_ANNUAL=b * 0.1, FISH_FAT_TONS_ANNUAL=b * 0.05)
        from src.scenarios.scenarios import Scenarios
        s = Scenarios()
        tc = {}
        {"zero": lambda: s.set_fish_zero(p, tc), "baseline": lambda: s.set_fish_baseline(p, tc), "nuclear_winter": lambda: s.set_fish_nuclear_winter_reduction(tc)}[c["fish"]]()
        sf = Seafood(p)
        sf.set_seafood_production(tc)
        return np.asarray(sf.to_humans.kcals, float)
    got = run(lambda: fish(base))
    wellformed(ctx, "fish", got, n, c)
    compare(ctx, "fish", got, R.fish_series(base, c["dist"], c["retail"], R.fish_percent(c["fish"], n)), c, " (%s)" % c["fish"])
    if not close(run(lambda: fish(base * c["k"])), got * c["k"]):
        ctx.fail("scaling-the-baseline-does-not-scale-the-series:fish", "k=%g" % c["k"], c)
    # grazing
    def grass(b, ratios):
        p = cp(ADD_MILK=True, ADD_MEAT=True, HUMAN_INEDIBLE_FEED_BASELINE_MONTHLY=b, TONS_MILK_ANNUAL=1.0, TONS_CHICKEN_AND_PORK_ANNUAL=1.0,
               TONS_BEEF_ANNUAL=1.0, INITIAL_MILK_CATTLE=1.0, INIT_SMALL_ANIMALS=1.0, INIT_MEDIUM_ANIMALS=1.0, INIT_LARGE_ANIMALS_WITH_MILK_COWS=2.0,
               **{"RATIO_GRASSES_YEAR%d" % (i + 1): r for i, r in enumerate(ratios)})
        return np.asarray(MeatAndDairy(p).human_inedible_feed.kcals, float)
    gbase = base / 1e3      # million dry caloric tons per month
    got = run(lambda: grass(gbase, c["ratios"]))
    wellformed(ctx, "grass", got, n, c)
    compare(ctx, "grass", got, R.grass_series(gbase, c["ratios"], n), c)
    if not close(run(lambda: grass(gbase * c["k"], c["ratios"])), got * c["k"]):
        ctx.fail("scaling-the-baseline-does-not-scale-the-series:grass", "k=%g" % c["k"], c)
    y = 1 + (c["months"] % (n // 12))
    r2 = list(c["ratios"])
    r2[y - 1] = r2[y - 1] + 0.5
    diff = np.nonzero(run(lambda: grass(gbase, r2)) != got)[0]
    block = [m for m in range(n) if R.grass_year(m, n) == y]
    if list(diff) != block:
        ctx.fail("changing-one-year's-ratio-changes-other-months:grass", "year %d: changed months %s, its block is %s" % (y, list(diff)[:20], block[:20]), c)
    # feed / biofuel demand
    def demand(b):
        p = cp(FEED_KCALS=b, FEED_FAT=b * 0.03, FEED_PROTEIN=b * 0.1, BIOFUEL_KCALS=b * 0.3, BIOFUEL_FAT=b * 0.01, BIOFUEL_PROTEIN=b * 0.02)
        bio, feed = FeedAndBiofuels(p).get_biofuels_and_feed_from_delayed_shutoff(p)
        return np.asarray(feed.kcals, float), np.asarray(bio.kcals, float)
    f, b = run(lambda: demand(base))
    wellformed(ctx, "feed_demand", f, n, c)
    wellformed(ctx, "biofuel_demand", b, n, c)
    compare(ctx, "feed_demand", f, R.demand_series(base, min(c["months"], n), n), c)
    compare(ctx, "biofuel_demand", b, R.demand_series(base * 0.3, min(c["months"] // 2, n), n), c)
    # industrial foods
    def scp(b_share, delay):
        p = cp(ADD_METHANE_SCP=True, SCP_GLOBAL_PRODUCTION_FRACTION=b_share)
        p["DELAY"]["INDUSTRIAL_FOODS_MONTHS"] = delay
        o = MethaneSCP(p)
        o.calculate_monthly_scp_caloric_production(p)
        o.calculate_scp_fat_and_protein_production()
        return np.asarray(o.production.kcals, float)

    def cs(b_share, delay):
        p = cp(ADD_CELLULOSIC_SUGAR=True, CS_GLOBAL_PRODUCTION_FRACTION=b_share)
        p["DELAY"]["INDUSTRIAL_FOODS_MONTHS"] = delay
        o = CellulosicSugar(p)
        o.calculate_monthly_cs_production(p)
        return np.asarray(o.production.kcals, float)
    for name, fn, ramp, plateau in (("methane_scp", scp, R.SCP_RAMP, 15), ("cellulosic_sugar", cs, R.CS_RAMP, 9.5)):
        got = run(lambda: fn(c["share"], c["delay"]))
        wellformed(ctx, name, got, n, c)
        exp = R.industrial_series(ramp, plateau, c["delay"], c["slope"], 7.723713182e9, c["kcals"], c["share"], c["dist"], n)
        known = False
        if name == "methane_scp" and c["delay"] > 0 and not close(got, exp):
            twice = R.industrial_series(ramp, plateau, 2 * c["delay"], c["slope"], 7.723713182e9, c["kcals"], c["share"], c["dist"], n)
            if close(got, twice):
                known = ctx.fail("methane-scp-start-up-delay-applied-twice", "delay %d months: the ramp starts %d months late" % (c["delay"], c["delay"]), c)
        if not known:
            compare(ctx, name, got, exp, c, " (delay %d)" % c["delay"])
        if np.any(np.diff(got) < -TOL * max(1e-300, got.max())):
            ctx.fail("ramp-not-monotone:" + name, "", c)
        if c["delay"] < 24:
            nxt = run(lambda: fn(c["share"], c["delay"] + 1))
            if not (nxt[0] == 0 and close(nxt[1:], got[:-1])):
                # with the recorded SCP finding a delay of d+1 shifts by two months; anything else is reported
                known = False
                if name == "methane_scp" and nxt[0] == 0 and nxt[1] == 0 and close(nxt[2:], got[:-2]):
                    known = ctx.fail("methane-scp-start-up-delay-applied-twice", "delay %d -> %d shifts the series by two months" % (c["delay"], c["delay"] + 1), c)
                if not known:
                    ctx.fail("one-more-month-of-delay-does-not-shift-the-series-by-one-month:" + name, "delay %d" % c["delay"], c)
        if c["share"] > 0 and not close(run(lambda: fn(c["share"] * 0.5, c["delay"])), got * 0.5):
            ctx.fail("scaling-the-baseline-does-not-scale-the-series:" + name, "", c)
    # seaweed
    def seaweed(delay):
        p = cp(ADD_SEAWEED=True, SEAWEED_MAX_AREA_FRACTION=c["share"], SEAWEED_NEW_AREA_FRACTION=c["share"] * 0.5, INITIAL_SEAWEED_FRACTION=c["share"],
               MAX_SEAWEED_AS_PERCENT_KCALS_HUMANS=10, MAX_SEAWEED_AS_PERCENT_KCALS_FEED=10, MAX_SEAWEED_AS_PERCENT_KCALS_BIOFUEL=10,
               SEAWEED_GROWTH_PER_DAY={str(i - 3): 1.0 + ((i * 7919) % 350) / 100.0 for i in range(n + 5)})
        p["DELAY"]["SEAWEED_MONTHS"] = delay
        o = Seaweed(p)
        return np.asarray(o.get_built_area(p), float), np.asarray(o.get_growth_rates(p), float), p
    area, growth, p = run(lambda: seaweed(c["delay"]))
    wellformed(ctx, "seaweed_built_area", area, n, c)
    compare(ctx, "seaweed_built_area", area, R.seaweed_built_area(c["share"] * 0.5, c["share"], c["delay"], n), c, " (delay %d)" % c["delay"])
    if np.any(np.diff(area) < 0) or area.max() > 1853.0 * c["share"] * (1 + 1e-12) + 1e-300:
        ctx.fail("seaweed-area-not-monotone-or-above-maximum", "", c)
    compare(ctx, "seaweed_growth", growth[:n], R.seaweed_growth(p["SEAWEED_GROWTH_PER_DAY"], n), c)
    # initial stored food
    def stored(stocks, pct, untouched):
        p = cp(END_OF_MONTH_STOCKS=dict(zip(R.MONTH_NAMES, stocks)), RATIO_STOCKS_UNTOUCHED=untouched, PERCENT_STORED_FOOD_TO_USE=pct)
        o = StoredFood(p, types.SimpleNamespace(OG_FRACTION_FAT=0.01, OG_FRACTION_PROTEIN=0.02))
        o.calculate_stored_food_to_use(c["start"])
        return float(o.initial_available.kcals)
    unt = c["untouched"]
    pct = float(c["pct"]) if c["pct"] / 100.0 >= unt else 100.0    # the class requires the share to use to be at least the share left untouched
    exp = R.initial_stored_food(dict(zip(R.MONTH_NAMES, c["stocks"])), c["start"], pct, unt, c["dist"])
    sscale = max(c["stocks"]) * 4e6 / 1e9       # the result is a difference of two such terms
    if exp >= TOL * sscale:
        got1 = run(lambda: stored(c["stocks"], pct, unt))
        if abs(got1 - exp) > TOL * sscale or got1 < 0:
            ctx.fail("series-differs-from-documented-function:initial_stored_food",
                     "start month %d: got %.12g, previous month's stock x share - untouched x annual minimum = %.12g" % (c["start"], got1, exp), c)
        if abs(run(lambda: stored([x * c["k"] for x in c["stocks"]], pct, unt)) - got1 * c["k"]) > TOL * sscale * c["k"]:
            ctx.fail("scaling-the-baseline-does-not-scale-the-series:initial_stored_food", "", c)
    ctx.event("direct")


# ---- (b) the real pipeline -----------------------------------------------------------------------------------------
def e2e(ctx, iso3, options):
    case = dict(kind="e2e", iso3=iso3, options=options)
    # the grazing series as it is actually handed to the herd simulation
    from src.food_system import animal_populations as ap
    handed, orig_init = [], ap.CalculateFeedAndMeat.__init__

    def spy(self, country_code, available_feed, available_grass, *a, **k):
        handed.append(np.asarray(available_grass.kcals, float).copy())
        return orig_init(self, country_code, available_feed, available_grass, *a, **k)
    ap.CalculateFeedAndMeat.__init__ = spy
    try:
        with quiet():
            cp, tcp, out = model.first_round(iso3, options)
    except (AssertionError, SystemExit, Exception) as e:
        model.abort_or_supply_failure(ctx, e, case)
        return
    finally:
        ap.CalculateFeedAndMeat.__init__ = orig_init
    consts, tc = out[0], out[1]
    feed_demand, biofuel_demand = out[4], out[5]
    n = cp["NMONTHS"]
    dist, retail = cp["WASTE_DISTRIBUTION"], cp["WASTE_RETAIL"]
    K = cp["NUTRITION"]["KCALS_DAILY"]
    ratios = [cp["RATIO_CROPS_YEAR%d" % i] for i in range(1, 11)]
    series = {
        "outdoor_crops": tc["outdoor_crops"].production.kcals, "greenhouse_crops": tc["greenhouse_crops"].kcals, "fish": tc["fish"].to_humans.kcals,
        "methane_scp": tc["methane_scp"].kcals, "cellulosic_sugar": tc["cellulosic_sugar"].kcals, "seaweed_built_area": tc["built_area"],
        "feed_demand": feed_demand.kcals, "biofuel_demand": biofuel_demand.kcals, "milk": tc["milk_kcals"],
        "meat": tc["each_month_meat_slaughtered"].kcals}
    for name, s in series.items():
        wellformed(ctx, name, s, n, case)
    g = np.asarray(tc["growth_rates_monthly"], float)
    if len(g) < n or not np.all(np.isfinite(g[:n])) or np.any(g[:n] < 0):
        ctx.fail("series-not-one-finite-non-negative-value-per-month:seaweed_growth", "%d entries" % len(g), case)
    compare(ctx, "fish", series["fish"], R.fish_series(cp["FISH_DRY_CALORIC_ANNUAL"], dist["SEAFOOD"], retail, R.fish_percent(options["fish"], n),
                                                       cp["ADD_FISH"]), case)
    compare(ctx, "feed_demand", series["feed_demand"], R.demand_series(cp["FEED_KCALS"], cp["DELAY"]["FEED_SHUTOFF_MONTHS"], n), case)
    compare(ctx, "biofuel_demand", series["biofuel_demand"], R.demand_series(cp["BIOFUEL_KCALS"], cp["DELAY"]["BIOFUEL_SHUTOFF_MONTHS"], n), case)
    d = cp["DELAY"].get("INDUSTRIAL_FOODS_MONTHS", 0)
    slope = cp.get("INDUSTRIAL_FOODS_SLOPE_MULTIPLIER", 0)
    exp = R.industrial_series(R.SCP_RAMP, 15, d, slope, cp["GLOBAL_POP"], K, cp["SCP_GLOBAL_PRODUCTION_FRACTION"], dist["SUGAR"], n, cp["ADD_METHANE_SCP"])
    known = False
    if cp["ADD_METHANE_SCP"] and d > 0 and not close(series["methane_scp"], exp):
        twice = R.industrial_series(R.SCP_RAMP, 15, 2 * d, slope, cp["GLOBAL_POP"], K, cp["SCP_GLOBAL_PRODUCTION_FRACTION"], dist["SUGAR"], n, True)
        if close(series["methane_scp"], twice):
            known = ctx.fail("methane-scp-start-up-delay-applied-twice", "%s: delay %d months, the ramp starts %d months late" % (iso3, d, d), case)
    if not known:
        compare(ctx, "methane_scp", series["methane_scp"], exp, case)
    compare(ctx, "cellulosic_sugar", series["cellulosic_sugar"],
            R.industrial_series(R.CS_RAMP, 9.5, d, slope, cp["GLOBAL_POP"], K, cp["CS_GLOBAL_PRODUCTION_FRACTION"], dist["SUGAR"], n, cp["ADD_CELLULOSIC_SUGAR"]), case)
    compare(ctx, "seaweed_built_area", series["seaweed_built_area"],
            R.seaweed_built_area(cp["SEAWEED_NEW_AREA_FRACTION"], cp["SEAWEED_MAX_AREA_FRACTION"], cp["DELAY"].get("SEAWEED_MONTHS", 0), n, cp["ADD_SEAWEED"]), case)
    compare(ctx, "seaweed_growth", g[:n], R.seaweed_growth(cp["SEAWEED_GROWTH_PER_DAY"], n), case)
    total_area = cp["INITIAL_GLOBAL_CROP_AREA"] * cp["INITIAL_CROP_AREA_FRACTION"]
    gh, _ = R.greenhouse_output(cp["BASELINE_CROP_KCALS"], cp["SEASONALITY"], ratios, cp["COUNTRY_CODE"], n, cp["OG_USE_BETTER_ROTATION"],
                                cp["ROTATION_IMPROVEMENTS"]["POWER_LAW_IMPROVEMENT"], total_area, cp.get("GREENHOUSE_AREA_MULTIPLIER", 0.0),
                                cp["DELAY"].get("GREENHOUSE_MONTHS", 0), cp.get("GREENHOUSE_GAIN_PCT", 0), dist["CROPS"], retail, cp["ADD_GREENHOUSES"])
    compare(ctx, "greenhouse_crops", series["greenhouse_crops"], gh, case)
    from checks.c09 import expected_production, e2e_constants
    compare(ctx, "outdoor_crops", series["outdoor_crops"], expected_production(e2e_constants(cp))[0], case)
    if cp["ADD_STORED_FOOD"]:
        got = float(np.atleast_1d(np.asarray(consts["stored_food"].initial_available.kcals, float))[0])
        exp = R.initial_stored_food(cp["END_OF_MONTH_STOCKS"], 5, cp["PERCENT_STORED_FOOD_TO_USE"], cp["RATIO_STOCKS_UNTOUCHED"], dist["CROPS"])
        if abs(got - exp) > TOL * max(cp["END_OF_MONTH_STOCKS"].values()) * 4e6 / 1e9 or got < 0:
            ctx.fail("series-differs-from-documented-function:initial_stored_food", "%s: got %.12g expected %.12g" % (iso3, got, exp), case)
    herd = [h for h in [out[6]]][0]
    # the grazing series is what the no-feed herds were offered
    from src.food_system.meat_and_dairy import MeatAndDairy
    with quiet():
        grass = np.asarray(MeatAndDairy(cp).human_inedible_feed.kcals, float)
    wellformed(ctx, "grass", grass, n, case)
    for g_handed in handed:
        wellformed(ctx, "grass_handed_to_the_herds", g_handed, n, case)
        compare(ctx, "grass_handed_to_the_herds", g_handed,
                R.grass_series(cp["HUMAN_INEDIBLE_FEED_BASELINE_MONTHLY"], [cp["RATIO_GRASSES_YEAR%d" % i] for i in range(1, 11)], n), case)
    if not handed:
        ctx.event("no_herd_simulation_in_first_round")
    compare(ctx, "grass", grass, R.grass_series(cp["HUMAN_INEDIBLE_FEED_BASELINE_MONTHLY"], [cp["RATIO_GRASSES_YEAR%d" % i] for i in range(1, 11)], n), case)
    if "GRASSES_PRODUCTION_MULTIPLIER" in options:
        # scaling grass production by a factor scales the whole series by that factor (same run without the override x factor)
        o0 = {k: v for k, v in options.items() if k != "GRASSES_PRODUCTION_MULTIPLIER"}
        with quiet():
            grass0 = np.asarray(MeatAndDairy(model.build_constants(iso3, o0)[0]).human_inedible_feed.kcals, float)
        compare(ctx, "grass_scaled_by_production_multiplier", grass, float(options["GRASSES_PRODUCTION_MULTIPLIER"]) * grass0, case)
        ctx.event("grass_multiplier_%d_months" % n)
    nonuniform = len(set(np.round(cp["SEASONALITY"], 12))) > 1
    if (nonuniform or len(set(ratios)) > 1) and (d > 0 or cp["DELAY"].get("SEAWEED_MONTHS", 0) > 0 or cp["DELAY"].get("GREENHOUSE_MONTHS", 0) > 0 or cp["OG_USE_BETTER_ROTATION"]):
        ctx.nontrivial_case(case)
    ctx.event("e2e_" + options["scenario"])
    ctx.sample(dict(iso3=iso3, scenario=options["scenario"], NMONTHS=n, crops_first=np.round(np.asarray(series["outdoor_crops"], float)[:6], 4),
                    scp_first_nonzero=int(np.argmax(np.asarray(series["methane_scp"]) > 0))), limit=4)


def grass_multiplier(ctx, c):
    """scaling grass production by a factor scales the grazing series of every month by exactly that factor"""
    iso3, options, m = c
    case = dict(kind="grass_multiplier", iso3=iso3, options=options, multiplier=m)
    from src.food_system.meat_and_dairy import MeatAndDairy
    try:
        with quiet():
            cp0 = model.build_constants(iso3, options)[0]
            cp1 = model.build_constants(iso3, dict(options, GRASSES_PRODUCTION_MULTIPLIER=m))[0]
            g0 = np.asarray(MeatAndDairy(cp0).human_inedible_feed.kcals, float)
            g1 = np.asarray(MeatAndDairy(cp1).human_inedible_feed.kcals, float)
    except (AssertionError, SystemExit, Exception) as e:
        model.abort_or_supply_failure(ctx, e, case)
        return
    n = cp0["NMONTHS"]
    wellformed(ctx, "grass", g1, n, case)
    compare(ctx, "grass_scaled_by_production_multiplier", g1, m * g0, case)
    ctx.event("grass_multiplier_%d_months" % n)
    if m != 1 and np.any(g0 > 0) and len(set(np.round(g0, 9))) > 1:
        ctx.nontrivial_case(case)


def strategy():
    c = st.tuples(gen.country(small_bias=True), gen.options("country", overrides=True))
    w = st.tuples(st.just("WOR"), gen.options("global"))
    return st.one_of(c, c, c, c, c, w)


def shard(ctx):
    thorough = ctx.tier == "thorough"
    drive(ctx, direct_case(), lambda c: direct(ctx, c), 6000 if thorough else 300, tag="direct")
    drive(ctx, strategy(), lambda c: e2e(ctx, c[0], c[1]), 300 if thorough else 30, shrink=False, tag="e2e")
    hz = [120, 120, 108, 96, 72, 48]
    mult = st.sampled_from([0.5, 2.0, 0.0]) | st.floats(0, 10).map(lambda x: round(x, 4))
    gm = st.one_of(st.tuples(gen.country(small_bias=True), gen.options("country", horizons=hz), mult),
                   st.tuples(gen.country(small_bias=True), gen.options("country", horizons=hz), mult),
                   st.tuples(st.just("WOR"), gen.options("global", horizons=hz), mult))
    drive(ctx, gm, lambda c: grass_multiplier(ctx, c), 200 if thorough else 16, shrink=False, tag="grassmult")
    if thorough:
        for i, iso in enumerate(model.iso3_list()):
            if i % ctx.nshards != ctx.shard:
                continue
            for scen in model.COUNTRY_FAMILIES["scenario"]:
                ctx.count()
                try:
                    e2e(ctx, iso, dict(model.BASELINE_COUNTRY, scenario=scen, crop_disruption="country_nuclear_winter",
                                       grasses="country_nuclear_winter", fish="nuclear_winter"))
                except Violation as v:
                    ctx.record_violation(v)


def replay(case, ctx):
    ctx.count()
    if case["kind"] == "direct":
        direct(ctx, case)
    elif case["kind"] == "grass_multiplier":
        grass_multiplier(ctx, (case["iso3"], case["options"], case["multiplier"]))
    else:
        e2e(ctx, case["iso3"], case["options"])


# coverage-guided tier (vlib/fuzz.py): the supply classes called directly on generated constants
FUZZ_IMPORTS = ["src.food_system.seafood", "src.food_system.methane_scp", "src.food_system.cellulosic_sugar", "src.food_system.seaweed",
                "src.food_system.stored_food", "src.food_system.feed_and_biofuels", "src.food_system.meat_and_dairy", "src.food_system.food"]
FUZZ_TARGETS = {"direct": (lambda ctx: (direct_case(), lambda c: direct(ctx, c)), 600, 40000, 2)}
