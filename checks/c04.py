"""C04 — headline, monthly breakdown and saved tables agree."""
import os

import numpy as np
import pandas as pd
from hypothesis import strategies as st

from vlib import model, workspace
from vlib.harness import drive, Violation
from checks.c01 import case_strategy, BUNDLES

PROPERTY = "C04"
RULE = ("drawn three-round runs (country and world scale, all option families, horizons 48..120) with a unique title per run (every other one 140 characters long); for every "
        "round the returned Interpreter, the LP variable values captured after the last solve and the <title>_roundN_ykcals.csv written to "
        "disk are compared: headline = min over months of the summed per-food series; each per-food series = captured allocation converted "
        "to kcals per person per day by an independent formula; headline not more than 0.01 % below the first-stage optimum (human rounds); "
        "CSV read back == returned series; immediate + new-stored crops == crops eaten.  Non-trivial = round with >= 3 contributing foods "
        "and a positive headline; distinct by (iso3, options, round).")
ASSUMPTIONS = ["series tolerance 1e-9 relative; percent series that the interpreter documents as rounded (3 decimals; 1 decimal for immediate crops) are compared at that precision",
               "'within 0.01 % of the optimum' is read as in the property text: the tie-breaking solves never degrade it (headline >= optimum x (1 - 1e-4))"]
COLS = ["fish", "cell_sugar", "scp", "greenhouse", "seaweed", "milk", "meat", "immediate_outdoor_crops", "new_stored_outdoor_crops", "stored_food"]


def relerr(a, b):
    a, b = np.asarray(a, float), np.asarray(b, float)
    s = np.maximum(1e-9, np.maximum(np.abs(a), np.abs(b)).max() if a.size else 1.0)
    return float(np.max(np.abs(a - b)) / s) if a.size else 0.0


def check_round(ctx, iso3, options, k, cap, title, interp, case):
    c, tc, v = cap["consts"], cap["tc"], cap["vals"]
    N = c["NMONTHS"]
    P, Kd = c["POP"], c["inputs"]["NUTRITION"]["KCALS_DAILY"]
    to_kcal_pp = 1e9 / (P * 30.0)            # billion kcals per month -> kcals per person per day
    got = {col: np.asarray(getattr(interp, col + "_kcals_equivalent").kcals, float) for col in COLS}
    exp = {"fish": np.asarray(tc["fish"].to_humans.kcals, float) * to_kcal_pp,
           "greenhouse": np.asarray(tc["greenhouse_crops"].kcals, float) * to_kcal_pp,
           "milk": np.asarray(tc["milk_kcals"], float) * to_kcal_pp,
           "meat": v["meat_eaten"] * to_kcal_pp,
           "stored_food": v["stored_food_to_humans"] * to_kcal_pp,
           "scp": v["methane_scp_to_humans"] * to_kcal_pp,
           "cell_sugar": v["cellulosic_sugar_to_humans"] * to_kcal_pp,
           "seaweed": v["seaweed_to_humans"] * c["SEAWEED_KCALS"] * to_kcal_pp}
    scale = max(1.0, max(float(np.max(np.abs(x))) for x in got.values()))
    for col, e in exp.items():
        d = float(np.max(np.abs(got[col] - e)))
        ctx.residual("series_abs_over_scale", d / scale)
        if len(got[col]) != N or d > 1e-9 * scale:
            m = int(np.argmax(np.abs(got[col] - e)))
            ctx.fail("reported-series-differs-from-allocation:" + col,
                     "%s round %d %s month %d: reported %.9g kcal/person/day, allocation converts to %.9g" % (iso3, k + 1, col, m, got[col][m], e[m]), case)
    crops = v["crops_food_to_humans"] * to_kcal_pp
    split = got["immediate_outdoor_crops"] + got["new_stored_outdoor_crops"]
    if float(np.max(np.abs(split - crops))) > 1e-9 * scale:
        m = int(np.argmax(np.abs(split - crops)))
        ctx.fail("immediate-plus-new-stored-crops-differs-from-crops-eaten",
                 "%s round %d month %d: %.9g + %.9g != %.9g" % (iso3, k + 1, m, got["immediate_outdoor_crops"][m], got["new_stored_outdoor_crops"][m], crops[m]), case)
    if np.any(got["immediate_outdoor_crops"] < -1e-9 * scale) or np.any(got["new_stored_outdoor_crops"] < -1e-9 * scale):
        ctx.event("negative_part_in_crop_split(not judged: the property only constrains the sum)")
    total = sum(got[col] for col in COLS) / Kd * 100.0
    head = float(interp.percent_people_fed)
    if not np.isfinite(head) or abs(head - float(np.min(total))) > 1e-9 * max(1.0, abs(head)):
        ctx.fail("headline-differs-from-worst-month-of-breakdown",
                 "%s round %d: headline %.12g, min over months of the summed foods %.12g" % (iso3, k + 1, head, float(np.min(total))), case)
    # documented-rounding percent series
    for name, dec in (("stored_food", 3), ("outdoor_crops", 3), ("new_stored_outdoor_crops", 3), ("immediate_outdoor_crops", 1)):
        pct = np.asarray(getattr(interp, name).kcals, float)
        ref = (got["immediate_outdoor_crops"] + got["new_stored_outdoor_crops"] if name == "outdoor_crops" else got[name]) / Kd * 100.0
        if float(np.max(np.abs(pct - ref))) > 0.5 * 10 ** (-dec) + 1e-9 * max(1.0, float(np.max(np.abs(ref)))):
            ctx.fail("percent-series-differs-from-kcal-series:" + name, "%s round %d" % (iso3, k + 1), case)
    for name, col in (("seaweed", "seaweed"), ("cell_sugar", "cell_sugar"), ("scp", "scp"), ("greenhouse", "greenhouse"), ("fish", "fish"),
                      ("meat", "meat"), ("milk", "milk")):
        pct = np.asarray(getattr(interp, name).kcals, float)
        if relerr(pct, got[col] / Kd * 100.0) > 1e-9:
            ctx.fail("percent-series-differs-from-kcal-series:" + name, "%s round %d" % (iso3, k + 1), case)
    # the fat and protein parts of the contributions the LP allocates directly: allocation x the food's documented fat / protein
    # content, as a percentage of the population's monthly fat / protein need
    nut = c["inputs"]["NUTRITION"]
    for name, var, unit, fkey, pkey, dec in (("stored_food", "stored_food_to_humans", 1.0, "SF_FRACTION_FAT", "SF_FRACTION_PROTEIN", 3),
                                             ("seaweed", "seaweed_to_humans", 1.0, "SEAWEED_FAT", "SEAWEED_PROTEIN", None),
                                             ("scp", "methane_scp_to_humans", 1.0, "SCP_KCALS_TO_FAT_CONVERSION", "SCP_KCALS_TO_PROTEIN_CONVERSION", None),
                                             ("cell_sugar", "cellulosic_sugar_to_humans", 1.0, None, None, None)):
        f = getattr(interp, name)
        for part, key, daily in (("fat", fkey, nut["FAT_DAILY"]), ("protein", pkey, nut["PROTEIN_DAILY"])):
            need = P * daily * 30.0 / 1e9                        # thousand tons per month
            want = v[var] * (float(c[key]) if key else 0.0) / need * 100.0
            have = np.asarray(getattr(f, part), float)
            tol_abs = (0.5 * 10 ** (-dec) if dec is not None else 0.0) + 1e-9 * max(1.0, float(np.max(np.abs(want))))
            if have.shape != want.shape or float(np.max(np.abs(have - want))) > tol_abs:
                m = int(np.argmax(np.abs(have - want))) if have.shape == want.shape else 0
                ctx.fail("reported-%s-part-differs-from-allocation:%s" % (part, name),
                         "%s round %d %s month %d: reported %.9g %% of the %s need, allocation x documented content gives %.9g" %
                         (iso3, k + 1, name, m, have[m] if have.shape == want.shape else float("nan"), part, want[m]), case)
    if cap["type"] == "to_humans":
        obj = float(cap["obj"])
        gap = (obj - head) / max(1.0, abs(obj))
        ctx.residual("headline_below_optimum_rel", gap)
        if gap > 1e-4:
            ctx.fail("tie-breaking-solves-degrade-the-optimum",
                     "%s round %d: first-stage optimum %.9g, headline %.9g (%.3g relative)" % (iso3, k + 1, obj, head, gap), case)
        if gap < -1e-4:
            # the later solves found more than the first stage reported as its optimum: that is the recorded CBC finding of C02 only if
            # the headline is still attainable - the independent optimum decides
            from vlib.ref import ref_lp
            ref, status, _, _ = ref_lp.solve_humans(cap["consts"], cap["tc"])
            ctx.event("headline_above_first_stage_optimum(CBC finding of C02)")
            if ref is not None and head > ref * (1 + 1e-4) + 1e-9:
                ctx.fail("headline-above-the-largest-attainable-value",
                         "%s round %d: headline %.9g, first-stage optimum %.9g, independent optimum %.9g" % (iso3, k + 1, head, obj, ref), case)
    # the table written to disk
    path = os.path.join(workspace.scratch(), "results", title + "_ykcals.csv")
    if not os.path.exists(path):
        ctx.fail("monthly-table-not-written", path, case)
    df = pd.read_csv(path, float_precision="round_trip")
    if list(df.columns[1:]) != COLS or len(df) != N:
        ctx.fail("saved-table-has-wrong-shape", "%s: columns %r rows %d" % (os.path.basename(path), list(df.columns), len(df)), case)
    for col in COLS:
        if not np.array_equal(df[col].to_numpy(float), got[col]):
            m = int(np.argmax(np.abs(df[col].to_numpy(float) - got[col])))
            ctx.fail("saved-table-differs-from-returned-result:" + col,
                     "%s round %d month %d: file %.17g, returned %.17g" % (iso3, k + 1, m, df[col][m], got[col][m]), case)
    os.remove(path)
    contributing = sum(1 for col in COLS if np.any(got[col] > 1e-9))
    ctx.event("round%d" % (k + 1) if cap["type"] == "to_humans" else "feed_round")
    if contributing >= 3 and head > 0:
        ctx.nontrivial_case(dict(iso3=iso3, options=options, k=k))


def run_case(ctx, iso3, options, title):
    r = model.run_case(iso3, options, title=title)
    if not r["ok"]:
        ctx.abort("%s@%s" % (r["exc_type"], r["exc_frame"]))
        return
    cap = r["cap"]
    case = dict(kind="run", iso3=iso3, options=options, title=title)
    if len(cap.opt) != len(cap.interp):
        ctx.fail("rounds-and-results-do-not-pair-up", "%d LPs, %d interpreted results" % (len(cap.opt), len(cap.interp)), case)
    for k, (lp, (t, interp)) in enumerate(zip(cap.opt, cap.interp)):
        ctx.count()      # one evaluation = one round's result compared with its allocation and its saved table
        check_round(ctx, iso3, options, k, lp, t, interp, case)
    final = r["result"]
    if cap.interp and final is not cap.interp[-1][1]:
        ctx.fail("returned-result-is-not-the-final-round", "", case)
    ctx.sample(dict(iso3=iso3, options={k: options[k] for k in ("scenario", "ratio_stocks_untouched", "shutoff", "NMONTHS")},
                    headlines=[float(i.percent_people_fed) for _, i in cap.interp]), limit=4)


def shard(ctx):
    thorough = ctx.tier == "thorough"

    def body(case):
        iso3, options = case
        # the title is the caller's free text and names the files: every other run carries a long one (the shipped files stop at 60
        # characters; nothing documents a limit)
        title = "c04 s%d n%d" % (ctx.shard, ctx.evaluations)
        if ctx.evaluations % 2:
            title += " " + "a long descriptive title as a user of the web interface might type it " * 2
            ctx.event("long_title")
        run_case(ctx, iso3, options, title.strip()[:140])
    drive(ctx, case_strategy(), body, 110 if thorough else 20, shrink=False, tag="runs", count=False)
    model.run_fixed(ctx, model.extreme_cases_wide(rotate=True), lambda iso, o, k: run_case(ctx, iso, o, "c04x %s" % iso))
    if thorough:
        for i, iso in enumerate(model.iso3_list()):
            if i % ctx.nshards != ctx.shard:
                continue
            for b, bundle in enumerate(BUNDLES[:6]):
                try:
                    run_case(ctx, iso, dict(model.BASELINE_COUNTRY, **bundle), "c04e %s %d" % (iso, b))
                except Violation as v:
                    ctx.record_violation(v)


def replay(case, ctx):
    ctx.count()
    run_case(ctx, case["iso3"], case["options"], case.get("title", "c04 replay"))
