"""C18 — hand-offs between rounds preserve totals, bounds and priorities."""
import copy
import types

import numpy as np
from hypothesis import strategies as st

from vlib import model, gen
from vlib.harness import drive, quiet, Violation
from checks.c01 import case_strategy

PROPERTY = "C18"
RULE = ("(i) Parameters.calculate_human_consumption_for_min_needs on a stub no-feed result: nine generated non-negative monthly series "
        "(zeros, ties, constant, sparse), headline = min over months of their total (the only shape the real caller produces), threshold "
        "T in [0,100]; (ii) get_second_round_kcals_with_redistributed_meat / fill_negatives_with_positives on generated pairs of monthly "
        "meat series (both orders of the totals, equal totals); (iii) increase_biofuels_then_feed on generated biofuel <= demand, feed <= "
        "demand, increase >= 0, availability >= 0 (also below current use); (iv) the same oracles on the objects passed between the rounds (plus a re-entry of compute_parameters_second_round with the no-feed meat series scaled above the with-feed total: the only admissible hand-off is none) "
        "of drawn real runs.  Non-trivial = (i) a month where the ceiling cuts through the middle of the priority list, (ii) a pair with "
        "both surplus and deficit months, (iii) a month where availability or a demand cap binds, (iv) a run whose feed round executed; "
        "distinct by input hash.")
ASSUMPTIONS = ["relative tolerance 1e-9; the final adjustment may exceed a demand by 2e-9 (the code's own 1e-9 regulariser)",
               "documented priority order: fish, meat, dairy, greenhouse, outdoor crops, stored food, single-cell protein, cellulosic sugar, seaweed"]
ORDER = ["fish", "meat", "dairy", "greenhouse", "outdoor_crops", "stored_food", "methane_scp", "cellulosic_sugar", "seaweed"]
ATTR = {"fish": "fish_kcals_equivalent", "meat": "meat_kcals_equivalent", "dairy": "milk_kcals_equivalent",
        "greenhouse": "greenhouse_kcals_equivalent", "stored_food": "stored_food_kcals_equivalent", "methane_scp": "scp_kcals_equivalent",
        "cellulosic_sugar": "cell_sugar_kcals_equivalent", "seaweed": "seaweed_kcals_equivalent"}


def kfood(vals):
    from src.food_system.food import Food
    v = np.array(vals, dtype=float)
    return Food(kcals=v, fat=np.zeros(len(v)), protein=np.zeros(len(v)), kcals_units="kcals per person per day each month",
                fat_units="effective kcals per person per day each month", protein_units="effective kcals per person per day each month")


def eaten_of(interp):
    e = {k: np.asarray(getattr(interp, a).kcals, float) for k, a in ATTR.items()}
    e["outdoor_crops"] = (np.asarray(interp.immediate_outdoor_crops_kcals_equivalent.kcals, float) +
                          np.asarray(interp.new_stored_outdoor_crops_kcals_equivalent.kcals, float))
    return e


def judge_min_needs(ctx, out, eaten, pf1, T, K, case, real=False):
    N = len(eaten["fish"])
    ceiling = K * min(pf1, T) / 100.0
    got = {k: np.asarray(out[k].kcals, float) for k in ORDER}
    total = sum(got[k] for k in ORDER)
    tol = 1e-9 * max(1.0, K)
    if real:
        tol = 1e-6 * max(1.0, K)     # the real headline is a solver output (min month within LP tolerance of the others)
    if set(out.keys()) != set(ORDER):
        ctx.fail("minimum-consumption-has-wrong-foods", repr(sorted(out.keys())), case)
    if np.any(np.abs(total - ceiling) > tol):
        m = int(np.argmax(np.abs(total - ceiling)))
        ctx.fail("minimum-consumption-does-not-add-up-to-min(no-feed,threshold)",
                 "month %d: foods add up to %.9g kcal/person/day, min(%.6g, %.6g) %% of %g = %.9g" % (m, total[m], pf1, T, K, ceiling), case)
    cut = False
    for m in range(N):
        short = False
        for k in ORDER:
            g, e = got[k][m], eaten[k][m]
            if g > e + tol or g < -tol:
                ctx.fail("minimum-consumption-exceeds-what-was-eaten:" + k, "month %d: %s %.9g of %.9g eaten" % (m, k, g, e), case)
            if short and g > tol:
                ctx.fail("minimum-consumption-not-filled-in-priority-order",
                         "month %d: %s gets %.9g although an earlier food was cut short" % (m, k, g), case)
            if g < e - tol:
                if g > tol:
                    cut = True
                short = True
    return cut


@st.composite
def min_needs_case(draw):
    n = draw(st.sampled_from([1, 2, 3, 6, 12]))
    val = st.sampled_from([0.0, 0.0, 100.0, 250.0]) | st.floats(0, 1500)
    series = {}
    for k in ORDER:
        kind = draw(st.sampled_from(["zero", "const", "free", "free"]))
        if kind == "zero":
            series[k] = [0.0] * n
        elif kind == "const":
            series[k] = [draw(val)] * n
        else:
            series[k] = draw(st.lists(val, min_size=n, max_size=n))
    return dict(kind="min_needs", n=n, series=series, T=draw(st.sampled_from([0.0, 10.0, 100.0]) | st.floats(0, 100)),
                K=draw(st.sampled_from([2100.0, 2100.0, 1800.0])))


def run_min_needs(ctx, c):
    from src.optimizer.parameters import Parameters
    from src.food_system.food import Food
    K, T, n = c["K"], c["T"], c["n"]
    Food.conversions.set_nutrition_requirements(kcals_daily=K, fat_daily=47, protein_daily=51, include_fat=False, include_protein=False, population=1e7)
    s = {k: np.array(v, float) for k, v in c["series"].items()}
    total = sum(s[k] for k in ORDER)
    pf1 = float(np.min(total)) / K * 100.0
    stub = types.SimpleNamespace(percent_people_fed=pf1, include_fat=False, include_protein=False)
    for k, a in ATTR.items():
        setattr(stub, a, kfood(s[k]))
    setattr(stub, "immediate_outdoor_crops_kcals_equivalent", kfood(s["outdoor_crops"] * 0.25))
    setattr(stub, "new_stored_outdoor_crops_kcals_equivalent", kfood(s["outdoor_crops"] * 0.75))
    eaten = eaten_of(stub)
    snap = {k: v.copy() for k, v in eaten.items()}
    ci = {"MINIMUM_PERCENT_FED_BEFORE_NONHUMAN_CONSUMPTION_ALLOWED": T, "NUTRITION": {"KCALS_DAILY": K}, "NMONTHS": n}
    try:
        with quiet(), np.errstate(all="ignore"):
            out = Parameters().calculate_human_consumption_for_min_needs(ci, stub, None)
    except AssertionError as e:
        ctx.fail("hand-off-rejects-a-valid-no-feed-result", "calculate_human_consumption_for_min_needs raised %r (T=%g, no-feed %.6g %%)" % (str(e)[:80], T, pf1), c)
    cut = judge_min_needs(ctx, out, eaten, pf1, T, K, c)
    for k in snap:
        if not np.array_equal(snap[k], eaten_of(stub)[k]):
            ctx.fail("hand-off-modifies-the-no-feed-result", k, c)
    ctx.event("ceiling_cuts_priority_list" if cut else ("threshold_binding" if pf1 > T else "no_feed_result_binding"))
    if cut:
        ctx.nontrivial_case(c)


@st.composite
def meat_case(draw):
    n = draw(st.sampled_from([1, 2, 3, 6, 12, 36]))
    val = st.sampled_from([0.0, 0.0, 1.0, 5.0]) | st.floats(0, 1e4)
    r1 = draw(st.lists(val, min_size=n, max_size=n))
    how = draw(st.sampled_from(["free", "permute", "shift", "scaled_up", "scaled_down", "equal"]))
    if how == "free":
        r2 = draw(st.lists(val, min_size=n, max_size=n))
    elif how == "permute":
        r2 = list(draw(st.permutations(r1)))
        if draw(st.booleans()):
            r2[draw(st.integers(0, n - 1))] += draw(st.floats(0, 100))
    elif how == "shift":
        k = draw(st.integers(0, n))
        r2 = ([0.0] * k + r1)[:n]
        r2[-1] += sum(r1) - sum(r2) + draw(st.floats(0, 10))
    elif how == "scaled_up":
        f = draw(st.floats(1, 3))
        r2 = [x * f for x in r1]
    elif how == "scaled_down":
        f = draw(st.floats(0, 1))
        r2 = [x * f for x in r1]
    else:
        r2 = list(r1)
    return dict(kind="meat", r1=r1, r2=r2)


def run_meat(ctx, c):
    from src.optimizer.parameters import Parameters
    r1, r2 = np.array(c["r1"], float), np.array(c["r2"], float)
    s1, s2 = r1.copy(), r2.copy()
    try:
        with quiet():
            out = Parameters().get_second_round_kcals_with_redistributed_meat(r1, r2, np.zeros(len(r1)), np.zeros(len(r1)))
    except AssertionError as e:
        ctx.fail("meat-re-timing-rejects-valid-series", repr(str(e)[:80]), c)
    if not (np.array_equal(r1, s1) and np.array_equal(r2, s2)):
        ctx.fail("meat-re-timing-modifies-its-inputs", "", c)
    judge_meat(ctx, r1, r2, out, c)


def judge_meat(ctx, r1, r2, out, c, recomputed=False):
    scale = max(1.0, float(r2.sum()), float(r1.sum()))
    if recomputed and abs(r1.sum() - r2.sum()) <= 1e-9 * scale:
        # r2 was recomputed by the reference, not the very array the model compared: with totals equal to rounding the model's strict
        # comparison may fall either way; only the statements about a returned series can be judged
        ctx.event("totals_equal_to_rounding")
        if out is None:
            return
    elif r1.sum() > r2.sum():
        ctx.event("feed_round_meat_total_lower")
        if out is not None:
            ctx.fail("meat-re-timing-does-not-signal-lower-total", "total %.9g < no-feed total %.9g but a series was returned" % (r2.sum(), r1.sum()), c)
        return
    if out is None:
        ctx.fail("meat-re-timing-refuses-although-total-not-lower", "totals %.9g >= %.9g" % (r2.sum(), r1.sum()), c)
    out = np.asarray(out, float)
    d = r2 - r1
    if np.any(d < 0) and np.any(d > 0):
        ctx.event("surplus_and_deficit_months")
        ctx.nontrivial_case(c)
    if abs(out.sum() - r2.sum()) > 1e-9 * scale:
        ctx.fail("meat-re-timing-changes-the-total", "%.12g -> %.12g" % (r2.sum(), out.sum()), c)
    if np.any(out < -1e-9 * scale):
        ctx.fail("meat-re-timing-makes-a-month-negative", "month %d: %.9g" % (int(np.argmin(out)), out.min()), c)
    if np.any(out < r1 - 1e-9 * scale):
        m = int(np.argmin(out - r1))
        ctx.fail("meat-re-timing-leaves-a-month-below-the-no-feed-level", "month %d: %.9g < %.9g" % (m, out[m], r1[m]), c)


@st.composite
def bump_case(draw):
    n = draw(st.sampled_from([1, 2, 6, 24]))
    val = st.sampled_from([0.0, 0.0, 1.0, 10.0]) | st.floats(0, 1e4)
    maxb = draw(st.lists(val, min_size=n, max_size=n))
    maxf = draw(st.lists(val, min_size=n, max_size=n))
    fr = st.sampled_from([0.0, 1.0, 0.5]) | st.floats(0, 1)
    b = [x * draw(fr) for x in maxb]
    f = [x * draw(fr) for x in maxf]
    inc = draw(st.lists(st.sampled_from([0.0, 0.0, 5.0]) | st.floats(0, 1e4), min_size=n, max_size=n))
    avail = draw(st.lists(st.sampled_from([0.0, 1e9]) | st.floats(0, 3e4), min_size=n, max_size=n))
    return dict(kind="bump", biofuel=b, feed=f, increase=inc, max_biofuel=maxb, max_feed=maxf, available=avail)


def run_bump(ctx, c):
    from src.optimizer.parameters import Parameters
    a = {k: np.array(c[k], float) for k in ("biofuel", "feed", "increase", "max_biofuel", "max_feed", "available")}
    snap = {k: v.copy() for k, v in a.items()}
    with quiet(), np.errstate(all="ignore"):
        ob, of = Parameters().increase_biofuels_then_feed(a["biofuel"], a["feed"], a["increase"], a["max_biofuel"], a["max_feed"], a["available"])
    ob, of = np.asarray(ob, float), np.asarray(of, float)
    for k in a:
        if not np.array_equal(a[k], snap[k]):
            ctx.fail("final-adjustment-modifies-its-inputs", k, c)
    judge_bump(ctx, a["biofuel"], a["feed"], ob, of, a["max_biofuel"], a["max_feed"], c)
    want = np.minimum(a["biofuel"] + a["increase"], a["max_biofuel"]) + np.minimum(a["feed"] + a["increase"], a["max_feed"])
    if np.any((want > a["available"]) | (a["biofuel"] + a["increase"] > a["max_biofuel"]) | (a["feed"] + a["increase"] > a["max_feed"])):
        ctx.event("cap_or_availability_binds")
        ctx.nontrivial_case(c)


def judge_bump(ctx, b, f, ob, of, maxb, maxf, c):
    if not (np.all(np.isfinite(ob)) and np.all(np.isfinite(of))):
        ctx.fail("final-adjustment-not-finite", "", c)
    if np.any(ob < b - 1e-12 * np.maximum(1, b)) or np.any(of < f - 1e-12 * np.maximum(1, f)):
        ctx.fail("final-adjustment-lowers-feed-or-biofuel", "biofuel min delta %.3g, feed min delta %.3g" % ((ob - b).min(), (of - f).min()), c)
    over_b, over_f = ob - np.maximum(maxb, b), of - np.maximum(maxf, f)
    if np.any(over_b > 2e-9 + 1e-9 * maxb) or np.any(over_f > 2e-9 + 1e-9 * maxf):
        m = int(np.argmax(np.maximum(over_b, over_f)))
        ctx.fail("final-adjustment-raises-above-demand",
                 "month %d: biofuel %.12g (demand %.12g), feed %.12g (demand %.12g)" % (m, ob[m], maxb[m], of[m], maxf[m]), c)


def more_meat_without_feed(ctx, cap, case):
    """the branch few (country, strategy, climate) cells take: the herds simulated WITH feed give less meat in total than the no-feed
    herds.  Then no re-timing can keep every month at or above the no-feed level, so the only hand-off that satisfies the property is
    none (the feed round is abandoned, all five outputs None).  Reached on every run by handing compute_parameters_second_round the
    run's own arguments with the no-feed meat series scaled above the with-feed total."""
    a = cap.rounds["second"]["args"]
    out0 = cap.rounds["second"]["out"]
    r1 = np.asarray(a[2]["each_month_meat_slaughtered"].kcals, float)
    herd2 = [h for h in cap.herds if h["round"] == "second"]
    if not herd2 or r1.sum() <= 0:
        return
    from checks.c05 import meat_from_herd
    raw2 = np.asarray(meat_from_herd(herd2[0]["obj"], a[0]), float)
    tc1 = copy.deepcopy(a[2])
    k = max(1.0, raw2.sum() / r1.sum()) * 1.02
    tc1["each_month_meat_slaughtered"].kcals = r1 * k
    try:
        with quiet():
            out = cap.rounds["second"]["obj"].compute_parameters_second_round(a[0], a[1], tc1, a[3])
    except Exception as e:       # noqa: BLE001  (an assertion of the model's own is a refusal, not a hand-off)
        ctx.event("more_meat_without_feed_refused_" + type(e).__name__)
        return
    ctx.event("more_meat_without_feed_%s" % ("cull" if a[0]["ADD_MEAT"] else "no_cull"))
    if out[1] is not None:
        new2 = np.asarray(out[1]["each_month_meat_slaughtered"].kcals, float)
        scale = max(1.0, float(np.max(r1 * k)))
        below = new2 < r1 * k - 1e-9 * scale
        ctx.fail("feed-round-handed-a-meat-series-below-the-no-feed-level",
                 "no-feed total %.9g > with-feed total %.9g, yet the feed round is handed a series with %d months below the no-feed level "
                 "(culled meat %s)" % ((r1 * k).sum(), raw2.sum(), int(below.sum()), "eaten" if a[0]["ADD_MEAT"] else "not eaten"), case)


def run_real(ctx, iso3, options, title):
    r = model.run_case(iso3, options, title=title)
    case = dict(kind="run", iso3=iso3, options=options)
    if not r["ok"]:
        ctx.abort("%s@%s" % (r["exc_type"], r["exc_frame"]))
        return
    cap = r["cap"]
    cp = cap.rounds["first"]["args"][0]
    K = cp["NUTRITION"]["KCALS_DAILY"]
    T = float(cp["MINIMUM_PERCENT_FED_BEFORE_NONHUMAN_CONSUMPTION_ALLOWED"])
    if "second" in cap.rounds and cap.rounds["second"]["out"][4] is not None:
        out2 = cap.rounds["second"]["out"]
        interp1 = cap.rounds["second"]["args"][3]
        judge_min_needs(ctx, out2[4], eaten_of(interp1), float(interp1.percent_people_fed), T, K, case, real=True)
        tc1, tc2 = cap.rounds["first"]["out"][1], out2[1]
        r1 = np.asarray(tc1["each_month_meat_slaughtered"].kcals, float)
        new2 = np.asarray(tc2["each_month_meat_slaughtered"].kcals, float)
        herd2 = [h for h in cap.herds if h["round"] == "second"][0]["obj"]
        from checks.c05 import meat_from_herd
        raw2 = meat_from_herd(herd2, cp)
        judge_meat(ctx, r1, raw2, new2, case, recomputed=True)
        ctx.event("real_feed_round")
        ctx.nontrivial_case(dict(iso3=iso3, options=options))
    elif "second" in cap.rounds:
        ctx.event("real_feed_round_skipped_meat_lower")
    if "second" in cap.rounds:
        more_meat_without_feed(ctx, cap, case)
    tc3 = cap.rounds["third"]["out"][1]
    fd, bd = cap.rounds["first"]["out"][4], cap.rounds["first"]["out"][5]
    f3, b3 = np.asarray(tc3["feed"].kcals, float), np.asarray(tc3["biofuel"].kcals, float)
    maxf, maxb = np.asarray(fd.kcals, float), np.asarray(bd.kcals, float)
    herd3 = [h for h in cap.herds if h["round"] == "third"]
    base_f = np.asarray(herd3[0]["obj"].feed_used.kcals, float) if herd3 else np.zeros(len(f3))
    # biofuel before the adjustment = what the feed round found, less 20 kcal/person/day (never below zero)
    if "second" in cap.rounds and cap.rounds["second"]["out"][4] is not None:
        i2 = [i for t, i in cap.interp if t.endswith("_round2")][0]
        base_b = np.asarray(i2.biofuels_sum_kcals_equivalent.kcals, float) * cp["POP"] * 30 / 1e9
    else:
        base_b = np.zeros(len(b3))
    judge_bump(ctx, base_b, base_f, b3, f3, maxb, maxf, case)


def shard(ctx):
    thorough = ctx.tier == "thorough"
    drive(ctx, min_needs_case(), lambda c: run_min_needs(ctx, c), 20000 if thorough else 120, tag="min_needs")
    drive(ctx, meat_case(), lambda c: run_meat(ctx, c), 40000 if thorough else 600, tag="meat")
    drive(ctx, bump_case(), lambda c: run_bump(ctx, c), 40000 if thorough else 800, tag="bump")

    def body(case):
        iso3, options = case
        run_real(ctx, iso3, options, "c18_%d_%d" % (ctx.shard, ctx.evaluations))
    # the hand-offs only exist when feed or biofuel are demanded: half of the runs are drawn with a schedule that demands them
    from checks.c03 import strategy as feeding_strategy
    drive(ctx, st.one_of(case_strategy(), feeding_strategy()), body, 40 if thorough else 8, shrink=False, tag="runs")
    # the extreme rows of the input table (population-dependent branches sit there), feed continued so that every hand-off is exercised
    model.run_fixed(ctx, model.extreme_cases(shutoff="continued") + model.extreme_cases(),
                    lambda iso, o, k: (ctx.count(), run_real(ctx, iso, o, "c18x_%s_%d" % (iso, k))))


def replay(case, ctx):
    ctx.count()
    k = case["kind"]
    if k == "min_needs":
        run_min_needs(ctx, case)
    elif k == "meat":
        run_meat(ctx, case)
    elif k == "bump":
        run_bump(ctx, case)
    else:
        run_real(ctx, case["iso3"], case["options"], "c18_replay")


# coverage-guided tier (vlib/fuzz.py): the three hand-off helpers, guided by branch coverage of parameters.py
FUZZ_IMPORTS = ["src.optimizer.parameters", "src.food_system.food", "src.food_system.unit_conversions"]
FUZZ_TARGETS = {"min_needs": (lambda ctx: (min_needs_case(), lambda c: run_min_needs(ctx, c)), 1500, 60000, 2),
                "meat": (lambda ctx: (meat_case(), lambda c: run_meat(ctx, c)), 3000, 150000, 2),
                "bump": (lambda ctx: (bump_case(), lambda c: run_bump(ctx, c)), 3000, 150000, 2)}
