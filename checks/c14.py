"""C14 — a run's result depends only on its own inputs."""
import copy
import hashlib
import json
import os
import subprocess
import sys

import numpy as np
import hypothesis
from hypothesis import strategies as st
from hypothesis.stateful import RuleBasedStateMachine, rule, precondition, run_state_machine_as_test

from vlib import model, workspace
from vlib.harness import hyp_settings, Violation, quiet, collecting

PROPERTY = "C14"
RULE = ("a pool of 21 deliberately dissimilar (country|world, scenario) items (both nutrition profiles, populations 3e5..1.4e9, horizons 48 "
        "and 120, with/without resilient foods, different waste, country and world scale); the digest (SHA-256 over the headline, every "
        "monthly series of the result, the meat and herd trajectories, raw float64 bytes) of each item computed ALONE in a freshly spawned "
        "interpreter is the reference; a rule-based state machine then runs histories of 2..6 steps in one process - run item i, run the "
        "previous item again, run an item the loader rejects, run an item and abort it with an injected exception after the first "
        "optimisation started - and every completed run's digest must equal its reference bit for bit; in addition every same-country pair of "
        "pool items back to back, multi-country batches through one call, same-country pairs with one drawn column overridden, and - for "
        "every option family - the same country under every value of the family in an order in which every value follows every other "
        "value once (Eulerian walk, 172 transitions).  Non-trivial = history in which two "
        "consecutive completed runs differ in nutrition profile, population or scale, or which contains a rejected / aborted run before a "
        "checked run; distinct by hash of the step list.")
ASSUMPTIONS = ["CBC and the herd model are deterministic for identical inputs (probe: 95 runs recomputed in other processes bit-identical)",
               "the order space is sampled, the pool is fixed"]

NW = dict(crop_disruption="country_nuclear_winter", grasses="country_nuclear_winter", fish="nuclear_winter")
B = model.BASELINE_COUNTRY
POOL = [
    ("BRB", dict(B, NMONTHS=48)),
    ("CHN", dict(B, nutrition="catastrophe", **NW)),
    ("ARG", dict(B, scenario="all_resilient_foods", shutoff="long_delayed_shutoff", meat_strategy="reduce_breeding", waste="doubled_prices_in_country", **NW)),
    ("USA", dict(B)),
    ("IND", dict(B, nutrition="catastrophe", waste="zero", NMONTHS=48, shutoff="immediate", cull="dont_eat_culled")),
    ("DJI", dict(B, scenario="relocated_crops", ratio_stocks_untouched="zero", **NW)),
    ("NZL", dict(B, shutoff="continued_after_10_percent_fed", scenario="seaweed", intake_constraints="disabled_for_humans", **NW)),
    ("BRA", dict(B, ratio_stocks_untouched="no_stored_between_years", seasonality="no_seasonality", NMONTHS=48)),
    ("LUX", dict(B, scenario="industrial_foods", nutrition="catastrophe", meat_strategy="feed_only_ruminants", **NW)),
    ("NGA", dict(B, waste="tripled_prices_in_country", stored_food="zero", NMONTHS=84)),
    ("WOR", dict(B, scale="global", seasonality="baseline_globally", waste="baseline_globally", NMONTHS=48)),
    ("WOR", dict(B, scale="global", seasonality="nuclear_winter_globally", waste="doubled_prices_globally", grasses="global_nuclear_winter",
                 crop_disruption="global_nuclear_winter", fish="nuclear_winter", nutrition="catastrophe", scenario="all_resilient_foods",
                 shutoff="short_delayed_shutoff")),
    ("JPN", dict(B, scenario="greenhouse", shutoff="one_month_delayed_shutoff", NMONTHS=60, **NW)),
    ("ETH", dict(B, MINIMUM_PERCENT_FED_BEFORE_NONHUMAN_CONSUMPTION_ALLOWED=50.0, CROP_PRODUCTION_MULTIPLIER=0.5, NMONTHS=48)),
    # numeric overrides on countries that also appear without them (an override must not outlive its run)
    ("USA", dict(B, meat_cattle_head=20000000, kg_meat_per_large_animal=150.0, NMONTHS=48)),
    ("ARG", dict(B, chicken_head=500000000, pig_head=100000, NMONTHS=48)),
    ("ARG", dict(B, NMONTHS=48)),
    # any column of the input table can be overridden from the scenario file: the same country with another population / harvest
    ("ARG", dict(B, population=30000000, NMONTHS=48)),
    ("USA", dict(B, population=90000000, crop_kcals=2.0e8, NMONTHS=48)),
    # ... also columns only one resilient food reads: the same seaweed scenario with and without other monthly growth rates
    ("ARG", dict(B, scenario="seaweed", NMONTHS=48, **NW)),
    ("ARG", dict(B, scenario="seaweed", NMONTHS=48, **dict(NW, **{"seaweed_growth_per_day_%d" % m: 1.0 for m in range(6, 18)}))),
]
# batches: several countries run by ONE call of the multi-country runner with ONE option dictionary (the runner shares it between the
# countries of a batch, in the row order of the input table); every country's result must be what it is when run alone.  Three batches
# start with a country for which the loader rewrites a known-bad scenario (ALB, SLV, ECU) followed by countries that do use feed
BATCHES = [
    (dict(B, scenario="seaweed", shutoff="continued", NMONTHS=48, **NW), ["ALB", "ARG", "BRB"]),
    (dict(B, scenario="all_resilient_foods", shutoff="long_delayed_shutoff", NMONTHS=48, **NW), ["SLV", "SWE", "USA"]),
    (dict(B, scenario="greenhouse", shutoff="long_delayed_shutoff", meat_strategy="feed_only_ruminants", NMONTHS=48), ["ECU", "FRA", "NZL"]),
    (dict(B, nutrition="catastrophe", shutoff="short_delayed_shutoff", NMONTHS=48, **NW), ["CHN", "LUX", "DJI"]),
]
BATCH_ITEMS = [(iso, o) for o, isos in BATCHES for iso in isos]
REFS = None


def digest(res):
    h = hashlib.sha256()
    h.update(np.float64(res.percent_people_fed).tobytes())
    for k, v in sorted(vars(res).items()):
        if hasattr(v, "kcals") and isinstance(v.kcals, np.ndarray):
            h.update(k.encode())
            for part in (v.kcals, getattr(v, "fat", None), getattr(v, "protein", None)):
                if isinstance(part, np.ndarray):
                    h.update(np.ascontiguousarray(part, dtype=np.float64).tobytes())
        elif isinstance(v, np.ndarray) and v.dtype.kind == "f":
            h.update(k.encode())
            h.update(np.ascontiguousarray(v, dtype=np.float64).tobytes())
    for dname in ("meat_dictionary", "animal_population_dictionary"):
        for k, v in sorted(getattr(res, dname, {}).items()):
            h.update(k.encode())
            h.update(np.ascontiguousarray(np.asarray(v, dtype=np.float64)).tobytes())
    return h.hexdigest()


LIVE = {}     # one option dictionary per pool item, handed to the model itself run after run (as a loop over scenarios would)


def run_item(i, title="c14", reference=False):
    iso, o = (POOL + BATCH_ITEMS)[i]
    live = LIVE.setdefault(i, copy.deepcopy(o))
    r = model.run_case(iso, live, title=title, capture=False, share_options=True)
    if live != o and not reference:        # (the stand-alone reference is only a digest; the histories report a changed dictionary)
        changed = {k: (o.get(k), live.get(k)) for k in set(o) | set(live) if o.get(k) != live.get(k)}
        LIVE[i] = copy.deepcopy(o)
        return None, "the run changed its caller's option dictionary: %r" % changed
    if not r["ok"]:
        return None, "%s@%s: %s" % (r["exc_type"], r["exc_frame"], r["exc_msg"])
    return digest(r["result"]), None


def _alone(i):
    """digest of pool item i computed alone in a fresh interpreter"""
    code = ("import sys, json; sys.path.insert(0, %r); import os; os.chdir(%r); sys.path.insert(0, %r); from checks import c14; "
            "d, e = c14.run_item(%d, reference=True); print('DIGEST ' + json.dumps([d, e]))" % (workspace.VERIF, workspace.scratch(), workspace.scratch(), i))
    env = dict(os.environ, PYTHONPATH=workspace.scratch() + os.pathsep + workspace.VERIF, MPLBACKEND="Agg", PYTHONHASHSEED="0")
    p = subprocess.run([sys.executable, "-c", code], cwd=workspace.scratch(), env=env, capture_output=True, text=True)
    for line in p.stdout.splitlines():
        if line.startswith("DIGEST "):
            return json.loads(line[7:])
    raise RuntimeError("reference run %d failed: %s" % (i, p.stderr[-500:]))


def _alone_options(iso, o):
    """digest of an arbitrary (country, options) run computed alone in a fresh interpreter"""
    code = ("import sys, json; sys.path.insert(0, %r); import os; os.chdir(%r); sys.path.insert(0, %r); from checks import c14; from vlib import model; "
            "r = model.run_case(%r, json.loads(%r), title='c14_alone', capture=False); "
            "print('DIGEST ' + json.dumps([c14.digest(r['result']) if r['ok'] else None, None if r['ok'] else r['exc_msg']]))"
            % (workspace.VERIF, workspace.scratch(), workspace.scratch(), iso, json.dumps(o)))
    env = dict(os.environ, PYTHONPATH=workspace.scratch() + os.pathsep + workspace.VERIF, MPLBACKEND="Agg", PYTHONHASHSEED="0")
    p = subprocess.run([sys.executable, "-c", code], cwd=workspace.scratch(), env=env, capture_output=True, text=True)
    for line in p.stdout.splitlines():
        if line.startswith("DIGEST "):
            return json.loads(line[7:])
    raise RuntimeError("stand-alone run of %s failed: %s" % (iso, p.stderr[-500:]))


def column_pair(ctx, iso, column, factor):
    """the same country twice in a row, the second time with ONE column of its input row overridden from the scenario (any column can
    be): the second result must be what that run gives alone in a fresh process"""
    t = model.country_table()
    base = float(t.loc[t["iso3"] == iso, column].iloc[0])
    o1 = dict(B, scenario="all_resilient_foods", shutoff="continued", NMONTHS=48, **NW)
    o2 = dict(o1, **{column: base * factor if base != 0 else 1.0})
    case = dict(kind="column_pair", iso3=iso, column=column, factor=factor)
    r1 = model.run_case(iso, copy.deepcopy(o1), title="c14_cp_%d" % ctx.shard, capture=False)
    r2 = model.run_case(iso, copy.deepcopy(o2), title="c14_cp_%d" % ctx.shard, capture=False)
    ref, err = _alone_options(iso, o2)
    ctx.event("column_pair")
    if ref is None or not r1["ok"] or not r2["ok"]:
        if ref is not None and r1["ok"] and not r2["ok"]:
            ctx.fail("run-fails-after-other-runs-although-it-completes-alone", "%s with %s overridden, after the same country without it" % (iso, column), case)
        ctx.abort("column_pair_run_does_not_complete")
        return
    d1, d2 = digest(r1["result"]), digest(r2["result"])
    if d2 != ref:
        ctx.fail("result-differs-from-the-same-run-computed-alone",
                 "%s with column %s x %g after the same country without the override: digest %s.., %s.. alone in a fresh process%s" %
                 (iso, column, factor, d2[:12], ref[:12], " (= the digest of the run without the override)" if d2 == d1 else ""), case)
    if d1 != d2:
        ctx.nontrivial_case(["column_pair", iso, column])


# ---- one option family at a time: the same country run under every value of the family, in an order in which every value follows every
# other value exactly once (an Eulerian circuit of the complete digraph on the family's values), everything else held fixed at a scenario
# that uses every food source.  A memo keyed on "the inputs that usually differ" (country, crop inputs, ...) survives exactly such a step.
RICH = dict(B, scenario="all_resilient_foods_and_more_area", shutoff="long_delayed_shutoff", NMONTHS=48, **NW)
WALK_ISOS = ["ARG", "USA", "JPN", "NGA", "NZL", "IND", "FRA", "BRA"]
FAMILY_REFS = {}


def euler_walk(vals):
    """a closed walk over vals that uses every ordered pair (a, b), a != b, exactly once (Hierholzer)"""
    out = {a: [b for b in vals if b != a] for a in vals}
    stack, walk = [vals[0]], []
    while stack:
        v = stack[-1]
        if out[v]:
            stack.append(out[v].pop(0))
        else:
            walk.append(stack.pop())
    return walk[::-1]


def family_segments(seg=10):
    segs = []
    for n, (fam, vals) in enumerate(sorted(model.COUNTRY_FAMILIES.items())):
        walk = euler_walk(list(vals))
        assert len(walk) == len(vals) * (len(vals) - 1) + 1 and len(set(zip(walk, walk[1:]))) == len(walk) - 1
        for k in range(0, len(walk) - 1, seg):
            segs.append((WALK_ISOS[n % len(WALK_ISOS)], fam, walk[k:k + seg + 1]))
    return segs


def family_walk(ctx, iso, fam, values):
    case = dict(kind="family_walk", iso3=iso, family=fam, values=list(values))
    prev = None
    for v in values:
        o = dict(RICH, **{fam: v})
        ref = FAMILY_REFS.get((iso, fam, v))
        if ref is None:
            ref = FAMILY_REFS[(iso, fam, v)] = _alone_options(iso, o)
        r = model.run_case(iso, copy.deepcopy(o), title="c14_fw_%d" % ctx.shard, capture=False)
        ctx.event("family_walk_step")
        if ref[0] is None or not r["ok"]:
            if ref[0] is not None:
                ctx.fail("run-fails-after-other-runs-although-it-completes-alone", "%s %s=%s after %s=%s" % (iso, fam, v, fam, prev), case)
            ctx.abort("family_walk_run_does_not_complete")
            prev = v
            continue
        if digest(r["result"]) != ref[0]:
            ctx.fail("result-differs-from-the-same-run-computed-alone",
                     "%s with %s=%s right after the same country and options with %s=%s (walk %s): digest differs from the run alone in a fresh process" %
                     (iso, fam, v, fam, prev, values), case)
        prev = v
    ctx.nontrivial_case(["family_walk", iso, fam, list(values)])


def prepare(tier):
    global REFS
    from concurrent.futures import ThreadPoolExecutor
    keys = sorted({(iso, fam, v) for iso, fam, vals in family_segments() for v in vals})
    with ThreadPoolExecutor(max_workers=16) as ex:
        REFS = list(ex.map(_alone, range(len(POOL) + len(BATCH_ITEMS))))
        for k, d in zip(keys, ex.map(lambda k: _alone_options(k[0], dict(RICH, **{k[1]: k[2]})), keys)):
            FAMILY_REFS[k] = d
    bad = [i for i, (d, e) in enumerate(REFS) if d is None]
    if bad:
        raise RuntimeError("pool items do not complete alone: %r" % [(i, REFS[i][1]) for i in bad])


def run_batch(ctx, j, history=()):
    """one multi-country call with one shared option dictionary; every country's digest against its stand-alone reference"""
    from src.scenarios.run_model_no_trade import ScenarioRunnerNoTrade
    o, isos = BATCHES[j]
    case = dict(kind="batch", batch=j, steps=list(history))
    t = model.country_table()
    names = dict(zip(t["iso3"], t["country"]))
    shared = copy.deepcopy(o)
    try:
        with quiet():
            out = ScenarioRunnerNoTrade().run_model_no_trade(title="c14_batch_%d" % ctx.shard, create_pptx_with_all_countries=False,
                                                             show_country_figures=False, show_map_figures=False, add_map_slide_to_pptx=False,
                                                             scenario_option=shared, countries_list=list(isos), return_results=True)
    except (AssertionError, Exception) as e:
        ctx.fail("batch-fails-although-every-country-completes-alone", "%r: %s: %s" % (isos, type(e).__name__, str(e)[:120]), case)
    results = out[3]
    base = len(POOL) + sum(len(b[1]) for b in BATCHES[:j])
    for k, iso in enumerate(isos):
        ctx.count()
        if names[iso] not in results:
            ctx.fail("batch-result-missing-a-country", "%s not in %r" % (iso, sorted(results)), case)
        d = digest(results[names[iso]])
        if d != REFS[base + k][0]:
            ctx.fail("result-differs-from-the-same-run-computed-alone",
                     "%s in batch %r (one shared option dictionary): digest %s.., %s.. alone in a fresh process; percent fed %.6f" %
                     (iso, isos, d[:12], REFS[base + k][0][:12], float(results[names[iso]].percent_people_fed)), case)
    ctx.event("batch_%s_first" % isos[0])
    ctx.nontrivial_case(["batch", j] + [list(x) for x in history])


def profile(i):
    iso, o = POOL[i]
    return (o["nutrition"], o["scale"], iso)


def make_machine(ctx):
    class History(RuleBasedStateMachine):
        def __init__(self):
            super().__init__()
            self.steps = []
            self.last = None
            self.checked = 0
            self.nt = False
            self.disturbed = False

        def check(self, i, what):
            d, err = run_item(i, title="c14_%d" % ctx.shard)
            case = dict(kind="history", steps=list(self.steps))
            if d is None:
                ctx.fail("run-fails-after-other-runs-although-it-completes-alone", "%s %s after %r: %s" % (POOL[i][0], what, self.steps[:-1], err), case)
            if d != REFS[i][0]:
                ctx.fail("result-differs-from-the-same-run-computed-alone",
                         "%s (pool item %d) %s: digest %s.. after history %r, %s.. alone in a fresh process" %
                         (POOL[i][0], i, what, d[:12], self.steps[:-1], REFS[i][0][:12]), case)
            if self.last is not None and profile(self.last)[:2] != profile(i)[:2] or self.disturbed:
                self.nt = True
            if self.last is not None and POOL[self.last][0] != POOL[i][0]:
                self.nt = True
            self.last, self.disturbed = i, False
            self.checked += 1

        @rule(i=st.integers(0, len(POOL) - 1))
        def run(self, i):
            self.steps.append(["run", i])
            ctx.event("step_run")
            self.check(i, "run")

        @rule(i=st.integers(0, len(POOL) - 1))
        def run_b(self, i):
            self.run.hypothesis_stateful_rule.function(self, i)

        @rule(i=st.integers(0, len(POOL) - 1))
        def run_c(self, i):
            self.run.hypothesis_stateful_rule.function(self, i)

        @rule(j=st.integers(0, len(BATCHES) - 1))
        def batch(self, j):
            self.steps.append(["batch", j])
            ctx.event("step_batch")
            run_batch(ctx, j, self.steps[:-1])
            self.disturbed = True

        @precondition(lambda self: self.last is not None)
        @rule()
        def again(self):
            self.steps.append(["again", self.last])
            ctx.event("step_repeat")
            self.check(self.last, "repeated")

        @rule(i=st.integers(0, len(POOL) - 1), fam=st.sampled_from(["waste", "shutoff", "scenario", "nutrition"]))
        def rejected(self, i, fam):
            self.steps.append(["rejected", i, fam])
            ctx.event("step_rejected")
            iso, o = POOL[i]
            bad = dict(copy.deepcopy(o))
            bad[fam] = "no_such_value"
            r = model.run_case(iso, bad, title="c14_bad", capture=False)
            if r["ok"]:
                ctx.fail("invalid-item-accepted", "%s %s=no_such_value" % (iso, fam), dict(kind="history", steps=list(self.steps)))
            self.disturbed = True

        @rule(i=st.integers(0, len(POOL) - 1), at=st.sampled_from(["first_optimisation", "second_herd"]))
        def aborted(self, i, at):
            self.steps.append(["aborted", i, at])
            ctx.event("step_aborted")
            from src.optimizer import optimizer as om
            from src.food_system import animal_populations as ap
            iso, o = POOL[i]

            class Injected(Exception):
                pass
            if at == "first_optimisation":
                obj, name = om.Optimizer, "run_optimizations_on_constraints"
            else:
                obj, name = ap.AnimalPopulation, "feed_animals"
            orig = getattr(obj, name)
            calls = [0]

            def boom(*a, **k):
                calls[0] += 1
                if calls[0] >= (1 if at == "first_optimisation" else 30):
                    raise Injected("injected fault")
                return orig(*a, **k)
            setattr(obj, name, boom)
            try:
                r = model.run_case(iso, copy.deepcopy(o), title="c14_abort", capture=False)
            finally:
                setattr(obj, name, orig)
            if r["ok"]:
                raise RuntimeError("fault injection did not abort the run")
            self.disturbed = True

        def teardown(self):
            if self.steps:
                ctx.count()
                if self.nt and self.checked >= 1 and len(self.steps) >= 2:
                    ctx.nontrivial_case(self.steps)
                ctx.sample(dict(history=[(s[0], "+".join(BATCHES[s[1]][1]) if s[0] == "batch" else POOL[s[1]][0]) + tuple(s[2:]) for s in self.steps], completed_runs_checked=self.checked), limit=3)

    return History


def shard(ctx):
    if REFS is None:
        raise RuntimeError("reference digests missing")
    thorough = ctx.tier == "thorough"
    M = make_machine(ctx)
    seed = (ctx.seed * 1000 + ctx.shard) * 13 + 1
    with collecting(ctx):
        run_state_machine_as_test(hypothesis.seed(seed)(M), settings=hyp_settings(38 if thorough else 3, shrink=False, stateful_steps=6))
    # every batch is run on every check (not left to the draw)
    # state keyed by the country is the likeliest leak: every ordered pair of pool items of the SAME country is run back to back on every check
    same = [(a, b) for a in range(len(POOL)) for b in range(len(POOL)) if a != b and POOL[a][0] == POOL[b][0]]
    for n, (a, b) in enumerate(same):
        if n % ctx.nshards != ctx.shard:
            continue
        ctx.count()
        ctx.event("same_country_pair")
        try:
            replay(dict(steps=[["run", a], ["run", b]]), ctx, count=False)
            ctx.nontrivial_case(["same-country pair", a, b])
        except Violation as v:
            ctx.record_violation(v)
    # ... and EVERY ordered pair of pool items back to back: one Eulerian circuit over the pool (every item follows every other item
    # exactly once; 21 x 20 transitions), cut into one segment per shard.  State that one particular run leaves behind for one particular
    # other run (a hand-written exception for one country that sticks in a class attribute, say) needs exactly such a pair.
    circuit = euler_walk(list(range(len(POOL))))
    per = -(-(len(circuit) - 1) // ctx.nshards)
    seg = circuit[ctx.shard * per: ctx.shard * per + per + 1]
    if len(seg) >= 2:
        ctx.count()
        ctx.event("pool_circuit_segment")
        try:
            replay(dict(steps=[["run", i] for i in seg]), ctx, count=False)
            ctx.nontrivial_case(["pool circuit segment", seg])
        except Violation as v:
            ctx.record_violation(v)
    # ... and with a DRAWN column of the input table overridden in the second run (numeric columns only; seeded by VERIF_SEED)
    t = model.country_table()
    cols = [c for c in t.columns if c not in ("iso3", "country") and np.issubdtype(t[c].dtype, np.number)]
    rng = np.random.RandomState(ctx.seed * 7919 + ctx.shard)
    for _ in range(4 if thorough else (1 if ctx.shard < 8 else 0)):
        iso = ["ARG", "USA", "JPN", "NGA", "NZL", "IND", "FRA", "BRA"][rng.randint(8)]
        ctx.count()
        try:
            column_pair(ctx, iso, cols[rng.randint(len(cols))], [0.5, 2.0][rng.randint(2)])
        except Violation as v:
            ctx.record_violation(v)
    # ... and every ordered pair of values of every option family back to back on the same country (see family_walk)
    for n, (iso, fam, vals) in enumerate(family_segments()):
        if n % ctx.nshards != ctx.shard:
            continue
        ctx.count()
        try:
            family_walk(ctx, iso, fam, vals)
        except Violation as v:
            ctx.record_violation(v)
    if ctx.shard < len(BATCHES) * (4 if thorough else 1):
        try:
            run_batch(ctx, ctx.shard % len(BATCHES), [["after-the-random-history-of-shard", ctx.shard]])
        except Violation as v:
            ctx.record_violation(v)
    if thorough:
        # all ordered pairs of the pool
        pairs = [(a, b) for a in range(len(POOL)) for b in range(len(POOL)) if a != b]
        for n, (a, b) in enumerate(pairs):
            if n % ctx.nshards != ctx.shard:
                continue
            ctx.count()
            try:
                replay(dict(steps=[["run", a], ["run", b]]), ctx, count=False)
                ctx.nontrivial_case(["pair", a, b])
            except Violation as v:
                ctx.record_violation(v)


def replay(case, ctx, count=True):
    global REFS
    if case.get("kind") == "column_pair":
        ctx.count()
        column_pair(ctx, case["iso3"], case["column"], case["factor"])
        return
    if case.get("kind") == "family_walk":
        ctx.count()
        family_walk(ctx, case["iso3"], case["family"], case["values"])
        return
    if REFS is None:
        prepare(ctx.tier)
    if count:
        ctx.count()
    M = make_machine(ctx)
    m = M()
    try:
        for s in case["steps"]:
            if s[0] == "after-the-random-history-of-shard":
                continue
            fn = getattr(M, s[0])
            body = fn.hypothesis_stateful_rule.function if hasattr(fn, "hypothesis_stateful_rule") else fn
            if s[0] == "again":
                body(m)
            else:
                body(m, *s[1:])
        if case.get("kind") == "batch":
            run_batch(ctx, case["batch"], case["steps"])
    finally:
        m.teardown()
