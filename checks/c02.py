"""C02 — percent fed is the true optimum of the allocation problem."""
import copy

import numpy as np
from hypothesis import strategies as st

from vlib import model, gen
from vlib.harness import drive, quiet, Violation, canon_hash
from vlib.ref import ref_lp
from checks.c01 import case_strategy, BUNDLES

PROPERTY = "C02"
RULE = ("every linear programme solved by drawn three-round runs (country and world scale, all option families, horizons 48..120) is "
        "re-formulated independently (sparse matrix, HiGHS) from the captured supplies and the reported first-stage optimum is compared "
        "with the reference optimum in both directions; in addition each captured human-round instance is perturbed (per-food supply "
        "factors in [0,3], retail waste, intake caps redrawn, charge scaled down) and solved by both the model's Optimizer and the "
        "reference; every feed-round instance is also solved with nothing pinned for people and ONE month made the bottleneck (months 0, 1, 2, "
        "7, 46: each link of the never-rises chain binds in some instance); the column-extreme rows of the input table are always run under "
        "three waste / stock bundles.  Non-trivial = instance with optimum > 0 in which the reference solution has at least one month strictly above the "
        "worst month (human rounds) / optimum > 0 (feed round); distinct by hash of the instance inputs.")
ASSUMPTIONS = ["objective tolerance 2e-5 relative (CBC gapRel 1e-5; probe: agreement <= 1.5e-7)",
               "the reference encodes the same problem statement as the model (different formulation and solver): a shared misreading would go unnoticed",
               "the feed-maximising round pins human consumption inside the +-1e-5 (+-1e-4 below 10 M people) band the model documents"]
TOL = 2e-5
TOL_SEAWEED = 5e-5   # instances with the seaweed ledger (compound growth ~3.4x per month over up to 120 months) are ill-conditioned at
                     # world scale: observed |model - reference| up to 2.3e-5; 5e-5 is the floor the model itself carries (0.99995)


def instance_hash(c, tc):
    parts = [c["NMONTHS"], c["POP"], float(np.sum(tc["outdoor_crops"].production.kcals)), float(np.sum(tc["feed"].kcals)),
             float(np.sum(tc["each_month_meat_slaughtered"].kcals)), float(np.sum(tc["milk_kcals"])), c["inputs"]["WASTE_RETAIL"],
             float(np.sum(tc["built_area"])), float(np.sum(tc["methane_scp"].kcals)), float(np.sum(tc["cellulosic_sugar"].kcals)),
             float(np.atleast_1d(np.asarray(c["stored_food"].initial_available.kcals, float))[0]),
             [c[k] for k in ("ADD_STORED_FOOD", "ADD_OUTDOOR_GROWING", "ADD_MEAT", "ADD_SEAWEED", "ADD_METHANE_SCP", "ADD_CELLULOSIC_SUGAR")]]
    return canon_hash(parts)


def monthly_percent(c, tc, x, B):
    idx, N = B.idx, c["NMONTHS"]
    K = ref_lp._coef(c)
    tot = np.asarray(tc["milk_kcals"], float) + np.asarray(tc["greenhouse_crops"].kcals, float) + np.asarray(tc["fish"].to_humans.kcals, float)
    tot = tot.copy()
    for f in ref_lp._foods(c):
        tot += K[f] * x[idx[f + "_h"]]
    if "me" in idx:
        tot += x[idx["me"]]
    return tot / float(c["BILLION_KCALS_NEEDED"]) * 100.0


def compare(ctx, typ, c, tc, obj, case, what):
    if typ == "to_humans":
        ref, status, x, B = ref_lp.solve_humans(c, tc)
    else:
        ref, status, x, B = ref_lp.solve_animals(c, tc)
    ctx.event("lp_" + typ)
    ctx.count()          # one evaluation = one linear programme compared with its independent reference
    if ref is None:
        ctx.event("reference_" + status)
        if status.startswith("undecided"):
            # the reference solver reported numerical trouble under all three of its algorithms: inconclusive, not a verdict
            ctx.abort("reference-" + status)
            return
        ctx.fail("reported-optimum-not-attainable:reference-infeasible:" + typ,
                 "%s: the model reports %.6g but no allocation satisfies the stated constraints (%s)" % (what, obj, status), case)
        return
    d = abs(ref - obj) / max(1.0, abs(ref))
    ctx.residual("objective_rel_" + typ + ("_seaweed" if c["ADD_SEAWEED"] else ""), d)
    tol = TOL_SEAWEED if c["ADD_SEAWEED"] else TOL
    if typ == "to_humans":
        pm = monthly_percent(c, tc, x, B)
        if ref > 1e-9 and np.max(pm) > ref * (1 + 1e-6) + 1e-9:
            ctx.nontrivial_case(instance_hash(c, tc))
    elif ref > 1e-9:
        ctx.nontrivial_case(instance_hash(c, tc))
        ctx.event("feed_round_optimum>0")
    if obj > ref + tol * max(1.0, abs(ref)):
        # "no feasible allocation feeds more" is refuted by a witness: an optimal point of the model's own programme that satisfies every
        # constraint of the REFERENCE programme (each within 1e-6 of its own magnitude) and attains the reported value.  Then the
        # reference solver, not the model, was imprecise (ill-conditioned seaweed ledgers at world scale move the optimum by ~5e-5).
        own, vals = own_programme(c, tc, typ)
        if own is not None:
            ok, val, why = ref_lp.witness(B, vals, own)
            if ok and val >= obj - tol * max(1.0, abs(ref)):
                ctx.event("reference_solver_imprecise_witness_feasible")
                return
            what += "; an optimal point of the model's own programme (%.9g by HiGHS) is not feasible for the stated constraints: %s" % (own, why)
        ctx.fail("reported-optimum-not-attainable:" + typ, "%s: model %.9g > best feasible %.9g (rel %.3g)" % (what, obj, ref, d), case)
    if obj < ref - tol * max(1.0, abs(ref)):
        # root cause: does the model's own programme reach the reference optimum when it is solved differently (CBC with other settings,
        # or the same matrix handed to HiGHS)?  Then the formulation is right and CBC's default solve stopped short (recorded finding).
        alt = resolve_model_lp(c, tc, typ)
        if alt is None or alt < ref - tol * max(1.0, abs(ref)):
            own, _ = own_programme(c, tc, typ)
            if own is not None:
                alt = own if alt is None else max(alt, own)
        if alt is not None and alt >= ref - tol * max(1.0, abs(ref)):
            ctx.fail("cbc-default-solve-returns-suboptimal-solution",
                     "%s: CBC (default dual simplex with presolve) reports %.9g as optimal; the same programme solved with presolve off / primal "
                     "simplex / HiGHS gives %.9g = independent optimum %.9g (rel gap %.3g)" % (what, obj, alt, ref, d), case)
        else:
            ctx.fail("reported-optimum-below-true-optimum:" + typ,
                     "%s: model %.9g < attainable %.9g (rel %.3g); the model's own programme cannot reach it (alt solve %r)" % (what, obj, ref, d, alt), case)


def own_programme(c, tc, typ):
    """The model's OWN PuLP programme (first stage), taken apart into a matrix and solved by HiGHS instead of CBC:
    (optimum or None, {variable name: value}).  Separates 'the formulation is wrong' from 'the solver did not solve it well'."""
    from pulp import LpProblem, LpMaximize
    from scipy.optimize import linprog
    from scipy.sparse import coo_matrix
    from src.optimizer.optimizer import Optimizer
    try:
        with quiet():
            c2, tc2 = copy.deepcopy(c), copy.deepcopy(tc)
            o = Optimizer(c2, tc2)
            m = LpProblem(name="own", sense=LpMaximize)
            variables = o.initial_variables.copy()
            m, variables, _ = o.add_variables_and_constraints_to_model(m, variables, c2, optimization_type=typ)
        vs = m.variables()
        idx = {v.name: i for i, v in enumerate(vs)}
        cost = np.zeros(len(vs))
        for v, coef in m.objective.items():
            cost[idx[v.name]] = -coef
        ub, eq = ([], [], [], []), ([], [], [], [])      # rows, cols, vals, rhs
        for con in m.constraints.values():
            sense, rhs = con.sense, -con.constant
            tgt = eq if sense == 0 else ub
            sign = -1.0 if sense == 1 else 1.0
            r = len(tgt[3])
            for v, coef in con.items():
                tgt[0].append(r)
                tgt[1].append(idx[v.name])
                tgt[2].append(sign * coef)
            tgt[3].append(sign * rhs)
        kw = {}
        if ub[3]:
            kw.update(A_ub=coo_matrix((ub[2], (ub[0], ub[1])), shape=(len(ub[3]), len(vs))).tocsr(), b_ub=np.array(ub[3]))
        if eq[3]:
            kw.update(A_eq=coo_matrix((eq[2], (eq[0], eq[1])), shape=(len(eq[3]), len(vs))).tocsr(), b_eq=np.array(eq[3]))
        bounds = [(v.lowBound, v.upBound) for v in vs]
        for method in ("highs", "highs-ds", "highs-ipm"):
            res = linprog(cost, bounds=bounds, method=method, **kw)
            if res.status == 0:
                return float(-res.fun), {v.name: float(res.x[i]) for i, v in enumerate(vs)}
    except Exception:
        pass
    return None, None


def resolve_model_lp(c, tc, typ):
    """first-stage optimum of the model's own PuLP programme under alternative CBC settings (None if it cannot be solved)"""
    import pulp
    from pulp import LpProblem, LpMaximize
    from src.optimizer.optimizer import Optimizer
    best = None
    for opts in (["presolve off"], ["primalS"]):
        try:
            with quiet():
                c2, tc2 = copy.deepcopy(c), copy.deepcopy(tc)
                o = Optimizer(c2, tc2)
                m = LpProblem(name="resolve", sense=LpMaximize)
                variables = o.initial_variables.copy()
                m, variables, _ = o.add_variables_and_constraints_to_model(m, variables, c2, optimization_type=typ)
                if m.solve(pulp.PULP_CBC_CMD(msg=False, options=opts)) == 1:
                    v = m.objective.value()
                    best = v if best is None else max(best, v)
        except Exception:
            continue
    return best


def scale_food(food, f):
    food.kcals = np.asarray(food.kcals, float) * f


def perturb(c, tc, p):
    """apply a drawn perturbation (dict) to deep copies of a captured human-round instance"""
    c, tc = copy.deepcopy(c), copy.deepcopy(tc)
    N = c["NMONTHS"]
    fac = lambda k: np.resize(np.asarray(p[k], float), N)  # noqa: E731
    if c["ADD_STORED_FOOD"]:
        c["stored_food"].initial_available.kcals = float(np.atleast_1d(np.asarray(c["stored_food"].initial_available.kcals, float))[0]) * p["stored"]
    tc["outdoor_crops"].production.kcals = np.asarray(tc["outdoor_crops"].production.kcals, float) * fac("crops")
    sl = np.asarray(tc["each_month_meat_slaughtered"].kcals, float) * fac("meat")
    tc["each_month_meat_slaughtered"].kcals = sl
    tc["max_consumed_culled_kcals_each_month"] = np.cumsum(sl)
    c["meat_summed_consumption"] = float(np.sum(sl))
    tc["milk_kcals"] = np.asarray(tc["milk_kcals"], float) * p["milk"]
    tc["fish"].to_humans.kcals = np.asarray(tc["fish"].to_humans.kcals, float) * p["fish"]
    tc["greenhouse_crops"].kcals = np.asarray(tc["greenhouse_crops"].kcals, float) * p["greenhouse"]
    tc["methane_scp"].kcals = np.asarray(tc["methane_scp"].kcals, float) * p["scp"]
    tc["cellulosic_sugar"].kcals = np.asarray(tc["cellulosic_sugar"].kcals, float) * p["cs"]
    if c["ADD_SEAWEED"]:
        tc["built_area"] = np.maximum(np.asarray(tc["built_area"], float) * p["seaweed"], c["INITIAL_BUILT_SEAWEED_AREA"])
    wr = p["waste"]
    c["inputs"]["WASTE_RETAIL"] = wr
    for k in ("STORED_FOOD_WASTE_RETAIL", "CROP_WASTE_RETAIL", "MEAT_WASTE_RETAIL", "SCP_RETAIL_WASTE", "CELL_SUGAR_RETAIL_WASTE", "SEAWEED_WASTE_RETAIL"):
        c[k] = wr
    for nm, v in zip(("SEAWEED", "METHANE_SCP", "CELLULOSIC_SUGAR"), p["caps"]):
        c["inputs"]["MAX_%s_AS_PERCENT_KCALS_HUMANS" % nm] = v
    # the shares of the resilient foods in the month's feed and biofuel charge
    for tag in ("FEED", "BIOFUEL"):
        for nm, v in zip(("SEAWEED", "METHANE_SCP", "CELLULOSIC_SUGAR"), p.get("caps_" + tag.lower(), ())):
            c["inputs"]["MAX_%s_AS_PERCENT_KCALS_%s" % (nm, tag)] = v
    tc["feed"].kcals = np.asarray(tc["feed"].kcals, float) * p["charge"]
    tc["biofuel"].kcals = np.asarray(tc["biofuel"].kcals, float) * p["charge"]
    tc["nonhuman_consumption"] = tc["feed"] + tc["biofuel"]
    return c, tc


factor = st.sampled_from([0.0, 1.0, 1.0, 0.5, 2.0]) | st.floats(0, 3)
series_factor = st.lists(factor, min_size=1, max_size=1) | st.lists(st.floats(0, 3), min_size=6, max_size=12)
perturbation = st.fixed_dictionaries(dict(
    stored=factor, crops=series_factor, meat=series_factor, milk=factor, fish=factor, greenhouse=factor, scp=factor, cs=factor, seaweed=factor,
    waste=st.sampled_from([0.0, 24.98]) | st.floats(0, 60), caps=st.lists(st.sampled_from([10.0, 40.0, 100.0]) | st.floats(0, 100), min_size=3, max_size=3),
    charge=st.sampled_from([0.0, 1.0]) | st.floats(0, 1),
    caps_feed=st.lists(st.sampled_from([10.0, 0.0, 100.0]) | st.floats(0, 100), min_size=3, max_size=3),
    caps_biofuel=st.lists(st.sampled_from([10.0, 0.0, 100.0]) | st.floats(0, 100), min_size=3, max_size=3)))


def perturb_animals(c, tc, p):
    """perturbed copy of a feed-round instance: supplies can only grow (the pinned human consumption must stay feasible),
    the demand ceilings are redrawn"""
    c, tc = copy.deepcopy(c), copy.deepcopy(tc)
    N = c["NMONTHS"]
    up = lambda k: 1.0 + np.resize(np.asarray(p[k], float), N) / 3.0      # noqa: E731  factors in [1, 2]
    if c["ADD_STORED_FOOD"]:
        c["stored_food"].initial_available.kcals = float(np.atleast_1d(np.asarray(c["stored_food"].initial_available.kcals, float))[0]) * (1 + p["stored"] / 3.0)
    tc["outdoor_crops"].production.kcals = np.asarray(tc["outdoor_crops"].production.kcals, float) * up("crops")
    tc["methane_scp"].kcals = np.asarray(tc["methane_scp"].kcals, float) * (1 + p["scp"] / 3.0)
    tc["cellulosic_sugar"].kcals = np.asarray(tc["cellulosic_sugar"].kcals, float) * (1 + p["cs"] / 3.0)
    tc["max_feed_that_could_be_used"].kcals = np.asarray(tc["max_feed_that_could_be_used"].kcals, float) * p["charge"] * 2.0
    tc["max_biofuel_that_could_be_used"].kcals = np.asarray(tc["max_biofuel_that_could_be_used"].kcals, float) * p["milk"] / 1.5
    # this round caps the resilient foods' share against the charge it was handed (the pipeline hands it zero: no resilient food can
    # go to feed here); with a non-zero charge and redrawn shares those rows of the programme are exercised at other values than zero
    if "caps_feed" in p:
        tc["feed"].kcals = np.asarray(tc["max_feed_that_could_be_used"].kcals, float) * p["greenhouse"] / 3.0
        tc["biofuel"].kcals = np.asarray(tc["max_biofuel_that_could_be_used"].kcals, float) * p["fish"] / 3.0
        for tag in ("FEED", "BIOFUEL"):
            for nm, v in zip(("SEAWEED", "METHANE_SCP", "CELLULOSIC_SUGAR"), p["caps_" + tag.lower()]):
                c["inputs"]["MAX_%s_AS_PERCENT_KCALS_%s" % (nm, tag)] = v
    return c, tc


def lean_month_animals(c, tc, p):
    """feed-round instance in which ONE month is the bottleneck: nothing pinned for people, no (or the full) initial stock, that month's
    harvest cut to a thousandth - feed that may never rise is then limited by that month in every later month, so each link of the
    'never rises' chain is binding in some instance (month 0, 1, 2, the middle, the last but one)"""
    c, tc = copy.deepcopy(c), copy.deepcopy(tc)
    N = c["NMONTHS"]
    m = min(p["lean_month"], N - 1)
    tc["min_human_food_consumption"] = copy.deepcopy(tc["min_human_food_consumption"])
    for food in tc["min_human_food_consumption"].values():
        if hasattr(food, "kcals"):
            food.kcals = np.asarray(food.kcals, float) * 0.0
    if c["ADD_STORED_FOOD"]:
        c["stored_food"].initial_available.kcals = float(np.atleast_1d(np.asarray(c["stored_food"].initial_available.kcals, float))[0]) * p["stored"]
    crops = np.asarray(tc["outdoor_crops"].production.kcals, float).copy()
    crops[:m] = 0.0                      # nothing can be carried into the lean month
    crops[m] *= 1e-3
    tc["outdoor_crops"].production.kcals = crops
    return c, tc


LEAN = [dict(lean_month=m, stored=s) for m, s in ((0, 0.0), (1, 0.0), (2, 0.0), (7, 0.0), (0, 1e-3), (46, 0.0))]


def solve_model_animals(c, tc):
    from src.optimizer.optimizer import Optimizer
    with quiet():
        o = Optimizer(c, tc)
        return o.optimize_feed_to_animals(c, tc, tc["min_human_food_consumption"])[3]


def solve_model(c, tc):
    from src.optimizer.optimizer import Optimizer
    with quiet():
        o = Optimizer(c, tc)
        return o.optimize_to_humans(c, tc)[3]


def run_case(ctx, iso3, options, perts, title):
    r = model.run_case(iso3, options, title=title)
    if not r["ok"]:
        ctx.abort("%s@%s" % (r["exc_type"], r["exc_frame"]))
        return
    base = dict(kind="run", iso3=iso3, options=options)
    caps = r["cap"].opt
    for i, cap in enumerate(caps):
        compare(ctx, cap["type"], cap["consts"], cap["tc"], cap["obj"], base, "%s %s lp#%d" % (iso3, options.get("scenario"), i))
    ctx.sample(dict(iso3=iso3, options={k: options[k] for k in ("scenario", "ratio_stocks_untouched", "shutoff", "NMONTHS")},
                    optima=[(c["type"], c["obj"]) for c in caps]), limit=3)
    humans = [cap for cap in caps if cap["type"] == "to_humans"]
    for j, p in enumerate(perts):
        cap = humans[j % len(humans)]
        c2, tc2 = perturb(cap["consts"], cap["tc"], p)
        case = dict(kind="perturbed", iso3=iso3, options=options, which=j % len(humans), perturbation=p)
        try:
            obj = solve_model(c2, tc2)
        except AssertionError:
            ctx.abort("perturbed_instance_not_solved")
            ctx.event("perturbed_unsolved")
            continue
        ctx.event("perturbed_solved")
        compare(ctx, "to_humans", c2, tc2, obj, case, "%s perturbed lp" % iso3)
    animals = [cap for cap in caps if cap["type"] == "to_animals"]
    for j, p in enumerate(perts if animals else []):
        cap = animals[0]
        c2, tc2 = perturb_animals(cap["consts"], cap["tc"], p)
        case = dict(kind="perturbed_animals", iso3=iso3, options=options, perturbation=p)
        try:
            obj = solve_model_animals(c2, tc2)
        except AssertionError:
            ctx.abort("perturbed_feed_round_not_solved")
            continue
        ctx.event("perturbed_feed_round_solved")
        compare(ctx, "to_animals", c2, tc2, obj, case, "%s perturbed feed-round lp" % iso3)
    for p in (LEAN if animals else []):
        c2, tc2 = lean_month_animals(animals[0]["consts"], animals[0]["tc"], p)
        case = dict(kind="lean_month_animals", iso3=iso3, options=options, perturbation=p)
        try:
            obj = solve_model_animals(c2, tc2)
        except AssertionError:
            ctx.abort("lean_month_feed_round_not_solved")
            continue
        ctx.event("lean_month_feed_round_solved")
        compare(ctx, "to_animals", c2, tc2, obj, case, "%s feed-round lp with lean month %d" % (iso3, p["lean_month"]))


def shard(ctx):
    thorough = ctx.tier == "thorough"

    def body(case):
        (iso3, options), perts = case
        run_case(ctx, iso3, options, perts, "c02_%d_%d" % (ctx.shard, ctx.evaluations))
    drive(ctx, st.tuples(case_strategy(), st.lists(perturbation, min_size=2, max_size=2)), body, 100 if thorough else 12, shrink=False, tag="runs", count=False)
    model.run_fixed(ctx, model.extreme_cases_wide(), lambda iso, o, k: run_case(ctx, iso, o, [], "c02x_%s" % iso))
    if thorough:
        isos = model.iso3_list()
        for i, iso in enumerate(isos):
            if i % ctx.nshards != ctx.shard:
                continue
            for b, bundle in enumerate(BUNDLES[:6]):
                try:
                    run_case(ctx, iso, dict(model.BASELINE_COUNTRY, **bundle), [], "c02e_%s_%d" % (iso, b))
                except Violation as v:
                    ctx.record_violation(v)


def replay(case, ctx):
    ctx.count()
    if case["kind"] == "run":
        run_case(ctx, case["iso3"], case["options"], [], "c02_replay")
        return
    r = model.run_case(case["iso3"], case["options"], title="c02_replay")
    if case["kind"] == "lean_month_animals":
        cap = [c for c in r["cap"].opt if c["type"] == "to_animals"][0]
        c2, tc2 = lean_month_animals(cap["consts"], cap["tc"], case["perturbation"])
        compare(ctx, "to_animals", c2, tc2, solve_model_animals(c2, tc2), case, "replay")
        return
    if case["kind"] == "perturbed_animals":
        cap = [c for c in r["cap"].opt if c["type"] == "to_animals"][0]
        c2, tc2 = perturb_animals(cap["consts"], cap["tc"], case["perturbation"])
        compare(ctx, "to_animals", c2, tc2, solve_model_animals(c2, tc2), case, "replay")
        return
    humans = [cap for cap in r["cap"].opt if cap["type"] == "to_humans"]
    cap = humans[case["which"]]
    c2, tc2 = perturb(cap["consts"], cap["tc"], case["perturbation"])
    compare(ctx, "to_humans", c2, tc2, solve_model(c2, tc2), case, "replay")
