"""C06 — herd head-count ledger balances every month."""
import numpy as np
from hypothesis import strategies as st

from vlib import herd, model
from vlib.harness import drive
from checks.c07 import herd_case

PROPERTY = "C06"
RULE = ("animal_populations.main(code, feed, grass, strategy, remove_first_month=0) called directly for drawn country codes (164 + world), "
        "3 breeding strategies, horizons 12..120 and monthly feed/grass series built as pattern x the herds' own requirement (zero, "
        "partial, ample, steps, spikes, noise); the ledger of every species and month is recomputed from the returned flow lists "
        "(index alignment handled explicitly), transfers between dairy and meat herds are matched, and slaughter is audited against "
        "hours per size class, animals available and the target herd.  1-3 starting head counts are overridden in a quarter of the cases; the world aggregate is always run.  Non-trivial = a run with starvation deaths > 0 in some species, "
        "a slaughter clamp (target or hours) binding in some species-month and a non-zero dairy->meat transfer; distinct by input hash.")
ASSUMPTIONS = ["relative tolerance 1e-9 on head counts (probe: residual 9e-15 on the unchanged tree)",
               "flow lists without a month-zero entry (births, transfers, retirements) are one shorter than stock lists"]
TOL = 1e-9


def audit(ctx, c, animals):
    case = dict(kind="herd", **c)
    n = c["n"]
    byname = {a.animal_type: a for a in animals}
    starv = clamp = transfer = False
    hours_used = {"small": np.zeros(n), "medium": np.zeros(n), "large": np.zeros(n)}
    hours_cap = {"small": 0.0, "medium": 0.0, "large": 0.0}
    above = {"small": np.zeros(n, bool), "medium": np.zeros(n, bool), "large": np.zeros(n, bool)}
    for a in animals:
        P = np.asarray(a.population, float)
        if len(P) != n + 1:
            ctx.fail("population-list-wrong-length", "%s: %d entries for %d months" % (a.animal_type, len(P), n), case)
        births = np.asarray(a.births_animals_month, float)
        tp = np.asarray(a.transfer_population, float)
        od = np.asarray(a.other_death_causes_other_than_starving, float)[1:]
        sl = np.asarray(a.slaughter, float)[1:]
        sd = np.asarray(a.other_death_starving, float)[1:]
        hk = np.asarray(a.homekill_healthy_this_month, float)[1:] + np.asarray(a.homekill_starving_this_month, float)[1:]
        milk = a.animal_function == "milk"
        ret = np.asarray(a.retiring_milk_animals, float) if milk else np.zeros(n)
        tin = np.zeros(n) if milk else tp
        for name, arr in (("births", births), ("transfer", tp), ("natural deaths", od), ("slaughter", sl),
                          ("starvation deaths", sd), ("home-kill", hk), ("retirements", ret)):
            if len(arr) != n:
                ctx.fail("flow-list-wrong-length", "%s %s: %d entries for %d months" % (a.animal_type, name, len(arr), n), case)
        scale = np.maximum(1.0, P[:-1])
        for name, arr in (("head count", P), ("births", births), ("natural deaths", od), ("slaughter", sl),
                          ("starvation deaths", sd), ("home-kill", hk), ("retirements", ret), ("transfers in", tin)):
            if np.any(~np.isfinite(arr)) or np.any(arr < -TOL * np.max(scale)):
                m = int(np.argmin(np.where(np.isfinite(arr), arr, -np.inf)))
                ctx.fail("negative-or-non-finite-" + name.replace(" ", "-"), "%s month %d: %s = %.6g" % (a.animal_type, m, name, arr[m]), case)
        pre = P[:-1] + births + tin - ret - od
        exp = np.maximum(0.0, pre - sl - sd - hk)
        res = np.abs(exp - P[1:]) / scale
        ctx.residual("ledger_rel", res.max() if len(res) else 0)
        if np.any(res > TOL):
            m = int(np.argmax(res))
            ctx.fail("head-count-ledger-does-not-balance",
                     "%s month %d: start %.9g + births %.9g + in %.9g - retired %.9g - died %.9g - slaughtered %.9g - starved %.9g - homekill %.9g = %.9g, reported %.9g" %
                     (a.animal_type, m, P[m], births[m], tin[m], ret[m], od[m], sl[m], sd[m], hk[m], exp[m], P[m + 1]), case)
        # slaughter limits
        avail = np.maximum(pre, 0.0)
        if np.any(sl > avail + TOL * scale):
            m = int(np.argmax(sl - avail))
            ctx.fail("slaughter-exceeds-animals-available", "%s month %d: slaughter %.9g of %.9g" % (a.animal_type, m, sl[m], avail[m]), case)
        target = a.target_population_fraction * P[0]
        below = (pre - sl < target - TOL * scale) & (sl > TOL * scale)
        if np.any(below):
            m = int(np.argmax(below))
            ctx.fail("slaughter-takes-herd-below-target", "%s month %d: %.9g - %.9g < target %.9g" % (a.animal_type, m, pre[m], sl[m], target), case)
        hours_used[a.animal_size] += sl * a.animal_slaughter_hours
        hours_cap[a.animal_size] += a.baseline_slaughter * a.animal_slaughter_hours
        if np.any(sd > 0):
            starv = True
        if np.any((np.abs(pre - sl - target) <= 1e-6 * scale) & (sl > 0)):
            clamp = True                      # slaughter stopped exactly at the target herd
        above[a.animal_size] |= (pre - sl - target) > 1e-6 * scale       # months in which this species could have been slaughtered further
        if milk:
            meat = byname.get("meat_" + a.animal_species)
            tb = np.asarray(a.transfer_births, float)
            if len(tb) != n:
                ctx.fail("flow-list-wrong-length", "%s transfer births" % a.animal_type, case)
            if np.any(tb < 0):
                ctx.fail("negative-or-non-finite-surviving-calves", a.animal_type, case)
            # surviving male calves = the dairy herd's own (female) births mirrored, less the documented 90 % calf culling
            exp_tb = births * (a.birth_ratio - 1) * (1 - 0.9)
            if np.any(np.abs(tb - exp_tb) > TOL * scale):
                m = int(np.argmax(np.abs(tb - exp_tb)))
                ctx.fail("surviving-calves-differ-from-births-less-culling",
                         "%s month %d: %.9g calves transferred, births %.9g x (1 - 0.9 culled) = %.9g" % (a.animal_type, m, tb[m], births[m], exp_tb[m]), case)
            out = ret + tb
            if np.any(np.abs(tp + out) > TOL * scale):
                ctx.fail("dairy-herd-transfer-not-retired-plus-surviving-calves", a.animal_type, case)
            if meat is not None:
                mt = np.asarray(meat.transfer_population, float)
                d = np.abs(mt - out)
                if np.any(d > TOL * scale):
                    m = int(np.argmax(d))
                    ctx.fail("dairy-to-meat-transfer-mismatch",
                             "%s month %d: retired %.9g + surviving calves %.9g but meat herd received %.9g" % (a.animal_species, m, ret[m], tb[m], mt[m]), case)
                if np.any(ret > 0) and np.any(tb > 0):
                    transfer = True           # both retirements and surviving calves moved to the meat herd
        elif byname.get("milk_" + a.animal_species) is None and np.any(np.abs(tp) > 0):
            ctx.fail("transfer-into-meat-herd-without-dairy-herd", a.animal_type, case)
    for size in hours_used:
        over = hours_used[size] > hours_cap[size] * (1 + TOL) + 1e-9
        if np.any(over):
            m = int(np.argmax(over))
            ctx.fail("slaughter-hours-exceed-size-class-capacity",
                     "%s animals month %d: %.9g h used of %.9g h" % (size, m, hours_used[size][m], hours_cap[size]), case)
        if hours_cap[size] > 0 and np.any((hours_used[size] >= hours_cap[size] * (1 - 1e-9)) & above[size]):
            clamp = True                      # the size class ran out of slaughter hours while animals above target remained
    ctx.event("starvation" if starv else "no_starvation")
    ctx.event("clamp_binding" if clamp else "no_clamp")
    ctx.event("dairy_transfer" if transfer else "no_transfer")
    if starv and clamp and transfer:
        ctx.nontrivial_case(case)


def run(ctx, c):
    req = herd.requirement(c["code"], c["strategy"])
    feed = [m * req for m in c["feed_mult"]]
    grass = [m * req for m in c["grass_mult"]]
    try:
        animals, fu, gu, _ = herd.run_main(c["code"], feed, grass, c["strategy"], c.get("heads"))
    except (AssertionError, ValueError):
        if c.get("heads"):          # the herd model may refuse an overridden stock row (dairy transfers larger than the meat herd; no animal left at all)
            ctx.abort("herd-model-refuses-overridden-heads")
            return
        raise
    if c.get("heads"):
        ctx.event("head_counts_overridden")
    ctx.event("strategy " + c["strategy"])
    ctx.sample(dict(code=c["code"], strategy=c["strategy"], months=c["n"], feed_mult_head=c["feed_mult"][:6],
                    grass_mult_head=c["grass_mult"][:6],
                    final_heads={a.animal_type: a.population[-1] for a in animals[:5]}), limit=3)
    audit(ctx, c, animals)


def codes():
    return model.iso3_list() + ["SWZ", "WOR"]      # Eswatini under both spellings (SWT: the model's country table; SWZ: the FAO tables)


def shard(ctx):
    thorough = ctx.tier == "thorough"
    drive(ctx, herd_case(codes()), lambda c: run(ctx, c), 900 if thorough else 150, shrink=thorough, tag="ledger")
    # the world aggregate is the only row with every species (e.g. both camel herds and camelids): always run it
    from vlib.harness import Violation
    fixed = [("WOR", st_, f, g) for st_ in herd.STRATEGIES for f, g in ((0.0, 0.0), (0.5, 0.5), (2.0, 2.0))]
    for i, (code, st_, f, g) in enumerate(fixed):
        if i % ctx.nshards != ctx.shard:
            continue
        ctx.count()
        try:
            run(ctx, dict(code=code, strategy=st_, n=36, feed_mult=[f] * 36, grass_mult=[g] * 36))
        except Violation as v:
            ctx.record_violation(v)
    if thorough:
        from vlib.harness import Violation
        cs = codes()
        pats = [(0.0, 0.0), (0.0, 1.0), (0.5, 0.5), (1.0, 0.0), (2.0, 2.0), (0.3, 0.0)]
        for i, code in enumerate(cs):
            if i % ctx.nshards != ctx.shard:
                continue
            for s in herd.STRATEGIES:
                for f, g in pats:
                    ctx.count()
                    try:
                        run(ctx, dict(code=code, strategy=s, n=120, feed_mult=[f] * 120, grass_mult=[g] * 120))
                    except Violation as v:
                        ctx.record_violation(v)


def replay(case, ctx):
    ctx.count()
    run(ctx, {k: v for k, v in case.items() if k != "kind"})
