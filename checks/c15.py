"""C15 — aggregate fed fraction is a capped, population-weighted mean of the selection."""
import copy

import numpy as np
from hypothesis import strategies as st

from vlib import model, gen
from vlib.harness import drive, quiet, Violation

PROPERTY = "C15"
RULE = ("ScenarioRunnerNoTrade.run_model_no_trade with the per-country solver replaced by a stub returning a generated fraction fed "
        "(in [0,3], exactly 1.0 and values just around it boosted); countries_list drawn as empty / inclusion / exclusion / mixed over "
        "the 164 codes; oracle: net_pop = sum of populations of exactly the selected rows, net_pop_fed = sum of population x "
        "min(1, fraction), ratio in [0,1], results has exactly the selected countries once each (return_results is drawn: with False, the default, only the aggregates and the set of countries run are judged).  A few real (un-stubbed) selections pin "
        "the stub's contract (fraction = percent fed / 100).  Non-trivial = selection with >= 2 countries of which at least one has a "
        "fraction above 1 and one below 1; distinct by (selection, fractions) hash.")
ASSUMPTIONS = ["selection semantics from the method's docstring: empty list = all, only '!'-prefixed codes = all others, any un-prefixed code = only the un-prefixed ones",
               "relative tolerance 1e-12 on the population sums"]


@st.composite
def selection_case(draw):
    isos = model.iso3_list()
    kind = draw(st.sampled_from(["empty", "inclusion", "exclusion", "mixed", "inclusion", "exclusion"]))
    k = draw(st.integers(1, 8) | st.integers(1, 60))
    codes = draw(st.lists(st.sampled_from(isos), min_size=k, max_size=k, unique=True))
    if kind == "empty":
        lst = []
    elif kind == "inclusion":
        lst = list(codes)
    elif kind == "exclusion":
        lst = ["!" + c for c in codes]
    else:
        cut = draw(st.integers(1, len(codes))) if len(codes) > 1 else 1
        lst = list(codes[:cut]) + ["!" + c for c in codes[cut:]]
        lst = list(draw(st.permutations(lst)))
    # now and then: a code listed twice, a code both named and excluded, a code that is not in the table (all well-defined by the
    # documented rule: a list whose codes all carry '!' excludes, any other list runs exactly the plain codes it names - once each)
    quirk = draw(st.sampled_from(["none", "none", "none", "duplicate", "named_and_excluded", "unknown_code"]))
    if lst and quirk == "duplicate":
        lst = lst + [draw(st.sampled_from(lst))]
    elif lst and quirk == "named_and_excluded":
        plain = [x for x in lst if "!" not in x]
        lst = lst + (["!" + draw(st.sampled_from(plain))] if plain else [draw(st.sampled_from(lst)).replace("!", "")])
    elif lst and quirk == "unknown_code":
        lst = lst + [("!" if all("!" in x for x in lst) else "") + "XXQ"]
    frac = st.sampled_from([0.0, 1.0, 1.0, 0.999999, 1.000001, 0.5, 2.0]) | st.floats(0, 3)
    fr = draw(st.lists(frac, min_size=len(isos), max_size=len(isos)))
    # any column of the input table can be overridden from the scenario file for every country of the run - the population too
    pop = draw(st.none() | st.none() | st.sampled_from([5000000, 10001, 9999999999]) | st.integers(10001, 9 * 10**9))
    # the aggregate is documented for both values of return_results (False is the default the shipped scripts use)
    rr = draw(st.booleans())
    # ... and with or without the csv files of the web interface being written (the writer itself is replaced by a recorder)
    sv = draw(st.booleans())
    return dict(kind="stub", list=lst, fractions=fr, population=pop, return_results=rr, save_all_results=sv)


def expected_selection(lst, isos):
    if not lst:
        return list(isos)
    if all("!" in c for c in lst):
        skip = {c.replace("!", "") for c in lst}
        return [i for i in isos if i not in skip]
    keep = {c for c in lst if "!" not in c}
    return [i for i in isos if i in keep]


def run_stub(ctx, c):
    from src.scenarios.run_model_no_trade import ScenarioRunnerNoTrade
    t = model.country_table()
    isos = t["iso3"].tolist()
    names = dict(zip(t["iso3"], t["country"]))
    pops = dict(zip(t["iso3"], t["population"].astype(float)))
    if len(set(names.values())) != len(names):
        raise RuntimeError("country names are not unique: the results dictionary cannot hold every country")
    fr = dict(zip(isos, c["fractions"]))
    calls = []
    orig = ScenarioRunnerNoTrade.run_optimizer_for_country

    ran_with = {}

    def stub(self, country_data, scenario_option, *a, **k):
        calls.append(country_data["iso3"])
        ran_with[country_data["iso3"]] = float(country_data["population"])
        return fr[country_data["iso3"]], "stub", ("result-of", country_data["iso3"])
    ScenarioRunnerNoTrade.run_optimizer_for_country = stub
    orig_save = ScenarioRunnerNoTrade.save_all_results_to_csv
    saved = []
    ScenarioRunnerNoTrade.save_all_results_to_csv = lambda self, results, title: saved.extend(list(results.keys()))
    lst = list(c["list"])
    snap = list(lst)
    rr = bool(c.get("return_results", True))
    opts = dict(model.BASELINE_COUNTRY)
    if c.get("population") is not None:
        opts["population"] = c["population"]
        pops = {i: float(c["population"]) for i in pops}
        ctx.event("population_overridden")
    try:
        with quiet():
            world, net_pop, net_fed, results = ScenarioRunnerNoTrade().run_model_no_trade(
                title="c15", create_pptx_with_all_countries=False, show_country_figures=False, show_map_figures=False,
                add_map_slide_to_pptx=False, scenario_option=opts, countries_list=lst, return_results=rr,
                save_all_results=bool(c.get("save_all_results", False)))
    finally:
        ScenarioRunnerNoTrade.run_optimizer_for_country = orig
        ScenarioRunnerNoTrade.save_all_results_to_csv = orig_save
    if c.get("save_all_results"):
        ctx.event("save_all_results")
    sel = expected_selection(c["list"], isos)
    ctx.event("return_results_%s" % rr)
    ctx.event("list_" + ("empty" if not c["list"] else "exclusion" if all("!" in x for x in c["list"]) else
                         "inclusion" if not any("!" in x for x in c["list"]) else "mixed"))
    if lst != snap:
        ctx.fail("selection-list-modified", "", c)
    if sorted(calls) != sorted(sel):
        extra, missing = sorted(set(calls) - set(sel)), sorted(set(sel) - set(calls))
        dup = sorted({x for x in calls if calls.count(x) > 1})
        ctx.fail("wrong-countries-run", "list %r: ran but not selected %s, selected but not run %s, run twice %s" % (c["list"][:8], extra[:5], missing[:5], dup[:5]), c)
    off = [i for i in sel if i in ran_with and ran_with[i] != pops[i]]
    if off:
        ctx.fail("country-run-with-another-population-than-configured", "%s run with %r, configured %r" % (off[0], ran_with[off[0]], pops[off[0]]), c)
    exp_pop = float(sum(pops[i] for i in sel))
    exp_fed = float(sum(pops[i] * min(1.0, fr[i]) for i in sel))
    if abs(net_pop - exp_pop) > 1e-12 * max(1.0, exp_pop):
        ctx.fail("aggregate-population-differs-from-selection", "net_pop %.12g, selected rows add up to %.12g" % (net_pop, exp_pop), c)
    if abs(net_fed - exp_fed) > 1e-12 * max(1.0, exp_pop):
        ctx.fail("aggregate-fed-differs-from-capped-weighted-sum", "net_pop_fed %.12g, sum of population x min(1, fraction) = %.12g" % (net_fed, exp_fed), c)
    if net_pop > 0 and not (0 <= net_fed / net_pop <= 1 + 1e-12):
        ctx.fail("aggregate-fraction-outside-0-1", "%.12g" % (net_fed / net_pop), c)
    if rr:
        if sorted(results.keys()) != sorted(names[i] for i in sel):
            ctx.fail("results-do-not-hold-exactly-the-selected-countries", "%d results for %d selected" % (len(results), len(sel)), c)
        for i in sel:
            if results[names[i]] != ("result-of", i):
                ctx.fail("result-stored-under-wrong-country", i, c)
    if len(sel) >= 2 and any(fr[i] > 1 for i in sel) and any(fr[i] < 1 for i in sel):
        ctx.nontrivial_case(dict(list=c["list"], f=[fr[i] for i in sel]))
    ctx.sample(dict(countries_list=c["list"][:6], selected=len(sel), net_pop=net_pop, net_pop_fed=net_fed), limit=3)


def run_real(ctx, lst, options):
    from src.scenarios.run_model_no_trade import ScenarioRunnerNoTrade
    t = model.country_table()
    names = dict(zip(t["iso3"], t["country"]))
    pops = dict(zip(t["iso3"], t["population"].astype(float)))
    case = dict(kind="real", list=lst, options=options)
    try:
        with quiet():
            world, net_pop, net_fed, results = ScenarioRunnerNoTrade().run_model_no_trade(
                title="c15real", create_pptx_with_all_countries=False, show_country_figures=False, show_map_figures=False,
                add_map_slide_to_pptx=False, scenario_option=copy.deepcopy(options), countries_list=list(lst), return_results=True)
    except (AssertionError, Exception) as e:
        ctx.abort(type(e).__name__)
        return
    sel = expected_selection(lst, t["iso3"].tolist())
    if sorted(results.keys()) != sorted(names[i] for i in sel):
        ctx.fail("results-do-not-hold-exactly-the-selected-countries", repr(sorted(results.keys())), case)
    exp_fed = sum(pops[i] * min(1.0, results[names[i]].percent_people_fed / 100.0) for i in sel)
    exp_pop = sum(pops[i] for i in sel)
    if abs(net_pop - exp_pop) > 1e-12 * exp_pop or abs(net_fed - exp_fed) > 1e-12 * exp_pop:
        ctx.fail("aggregate-differs-from-per-country-results", "net_pop %.12g (%.12g), net_pop_fed %.12g (%.12g)" % (net_pop, exp_pop, net_fed, exp_fed), case)
    ctx.event("real_selection")
    fr = [results[names[i]].percent_people_fed / 100.0 for i in sel]
    if len(sel) >= 2 and any(f > 1 for f in fr) and any(f < 1 for f in fr):
        ctx.nontrivial_case(case)


REAL = [(["ARG", "JPN"], {}), (["!USA"] + ["!" + c for c in []], None), (["NZL", "!AUS", "DJI"], dict(crop_disruption="country_nuclear_winter")),
        (["BRB", "BRA", "EGY"], dict(shutoff="immediate", waste="zero"))]


def shard(ctx):
    thorough = ctx.tier == "thorough"
    drive(ctx, selection_case(), lambda c: run_stub(ctx, c), 700 if thorough else 80, tag="stub")
    for i, (lst, o) in enumerate(REAL):
        if o is None or i % ctx.nshards != ctx.shard:
            continue
        ctx.count()
        try:
            run_real(ctx, lst, dict(model.BASELINE_COUNTRY, NMONTHS=48, **o))
        except Violation as v:
            ctx.record_violation(v)


def replay(case, ctx):
    ctx.count()
    if case["kind"] == "stub":
        run_stub(ctx, case)
    else:
        run_real(ctx, case["list"], case["options"])


# coverage-guided tier (vlib/fuzz.py): selection / exclusion / aggregation with the per-country run stubbed out
FUZZ_IMPORTS = ["src.scenarios.run_model_no_trade"]
FUZZ_TARGETS = {"stub": (lambda ctx: (selection_case(), lambda c: run_stub(ctx, c)), 0, 4000, 2)}
