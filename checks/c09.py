"""C09 — cropland is neither double-counted nor lost between crops and greenhouses."""
import copy

import numpy as np
from hypothesis import strategies as st

from vlib import model
from vlib.harness import drive, quiet
from vlib.ref import ref_supply as R
from vlib import gen

PROPERTY = "C09"
RULE = ("(a) Hypothesis-generated constants (annual harvest 1e2..1e9.5 t, seasonality vectors incl. sparse/uniform, 10 yearly "
        "ratios in [0,3], relocation on/off, greenhouses on/off, expansion on/off, delays, waste) pushed through "
        "Parameters.init_outdoor_crops + init_greenhouse_params and compared month by month with a reference written from the "
        "documentation, plus metamorphic laws (scale by k, relocation >= none, more area >= same area); (b) "
        "compute_parameters_first_round for drawn (country, options) with every resilient-food set, same oracle on the real "
        "pipeline.  Non-trivial = greenhouse fraction > 0 in some month, or some monthly output in (0,1) billion kcal "
        "(where truncation would show); distinct by hash of the generated constants / (iso3, options).")
ASSUMPTIONS = ["tolerance 1e-9 relative (pure float arithmetic)",
               "reference series in vlib/ref/ref_supply.py encodes the documented calendar (May start, year blocks 8/12/.../16)"]
EXHAUSTIVE = {"quick": False, "thorough": False}
RTOL = 1e-9


def close(a, b, scale=None):
    a = np.asarray(a, float)
    b = np.asarray(b, float)
    s = np.maximum(np.abs(a), np.abs(b)) if scale is None else scale
    return np.abs(a - b) <= RTOL * np.maximum(s, 1e-300) + 1e-15


@st.composite
def crop_constants(draw):
    # direct calls: the horizons of full runs (multiples of 12) and any length the crop / greenhouse classes themselves accept (>= 42, their own assertion)
    n = draw(st.sampled_from(model.HORIZONS) | st.sampled_from([42, 43, 47, 49, 119]) | st.integers(42, 120))
    annual = draw(gen.magnitude(2, 9.5))  # no shipped row has a zero harvest (min 1.4e3 t)
    reloc = draw(st.booleans())
    gh = draw(st.booleans())
    more = reloc and draw(st.booleans())
    c = dict(
        NMONTHS=n, STARTING_MONTH_NUM=5, COUNTRY_CODE=draw(st.sampled_from(["ARG", "USA", "ZAF", "JPN", "DJI", "LSO", "IND"])),
        BASELINE_CROP_KCALS=annual, BASELINE_CROP_FAT=annual * draw(st.floats(0, 0.2)),
        BASELINE_CROP_PROTEIN=annual * draw(st.floats(0, 0.2)),
        ADD_OUTDOOR_GROWING=draw(st.sampled_from([True, True, True, False])),
        WASTE_DISTRIBUTION={"CROPS": draw(st.sampled_from([0.0, 4.96]) | st.floats(0, 60))},
        WASTE_RETAIL=draw(st.sampled_from([0.0, 24.98]) | st.floats(0, 60)),
        OG_USE_BETTER_ROTATION=reloc,
        ROTATION_IMPROVEMENTS={"POWER_LAW_IMPROVEMENT": draw(st.floats(0.05, 1.0)), "FAT_RATIO": 1.647, "PROTEIN_RATIO": 1.108},
        SEASONALITY=draw(gen.seasonality()),
        RATIO_INCREASED_CROP_AREA=(72 / 39 if more else 1),
        NUMBER_YEARS_TAKES_TO_REACH_INCREASED_AREA=3,
        INITIAL_HARVEST_DURATION_IN_MONTHS=8,
        DELAY={"ROTATION_CHANGE_IN_MONTHS": draw(st.sampled_from([2, 2, 0, 1, 6, 12])),
               "GREENHOUSE_MONTHS": draw(st.sampled_from([2, 2, 0, 1, 7, 12]))},
        INITIAL_GLOBAL_CROP_AREA=1.43e9,
        INITIAL_CROP_AREA_FRACTION=draw(st.sampled_from([1.0, 0.02, 1e-4, 0.0]) | st.floats(1e-6, 1.0)),
        ADD_GREENHOUSES=gh,
        GREENHOUSE_AREA_MULTIPLIER=draw(st.just(0.19e9 / 1.43e9) | st.floats(0.0, 1.0)),
        GREENHOUSE_GAIN_PCT=44,
    )
    ratios = draw(st.lists(gen.ratio(), min_size=10, max_size=10))
    for i, r in enumerate(ratios):
        c["RATIO_CROPS_YEAR%d" % (i + 1)] = r
    return c


def compute(c):
    """the code under test: outdoor production and greenhouse fraction for a constants dict"""
    from src.optimizer.parameters import Parameters
    c = copy.deepcopy(c)
    with quiet():
        p = Parameters()
        _, oc = p.init_outdoor_crops({}, c)
        tc = p.init_greenhouse_params({}, c, oc)
    from src.food_system.greenhouses import Greenhouses  # noqa: F401
    return np.asarray(tc["outdoor_crops"].production.kcals, float), np.asarray(tc["greenhouse_crops"].kcals, float), oc


def gh_fraction_from(c):
    total = c["INITIAL_GLOBAL_CROP_AREA"] * c["INITIAL_CROP_AREA_FRACTION"]
    area = R.greenhouse_area(total, c.get("GREENHOUSE_AREA_MULTIPLIER", 0.0), c["DELAY"].get("GREENHOUSE_MONTHS", 0),
                             c["NMONTHS"], c["ADD_GREENHOUSES"])
    return (area / total if total > 0 else np.zeros(c["NMONTHS"])), area


def expected_production(c):
    n = c["NMONTHS"]
    if not c["ADD_OUTDOOR_GROWING"]:
        return np.zeros(n), np.zeros(n), gh_fraction_from(c)[0]
    ratios = [c["RATIO_CROPS_YEAR%d" % i] for i in range(1, 11)]
    hd = c["INITIAL_HARVEST_DURATION_IN_MONTHS"] + c["DELAY"]["ROTATION_CHANGE_IN_MONTHS"]
    grown = R.outdoor_grown(c["BASELINE_CROP_KCALS"], c["SEASONALITY"], ratios, c["COUNTRY_CODE"], n,
                            c["OG_USE_BETTER_ROTATION"], c["ROTATION_IMPROVEMENTS"]["POWER_LAW_IMPROVEMENT"], hd,
                            area_ratio=c["RATIO_INCREASED_CROP_AREA"],
                            area_years=c.get("NUMBER_YEARS_TAKES_TO_REACH_INCREASED_AREA", 3),
                            harvest_duration=c["INITIAL_HARVEST_DURATION_IN_MONTHS"])
    frac, _ = gh_fraction_from(c)
    return grown * (1 - frac) * (1 - c["WASTE_DISTRIBUTION"]["CROPS"] / 100.0), grown, frac


def classify(c, prod, exp, grown, frac):
    w = 1 - c["WASTE_DISTRIBUTION"]["CROPS"] / 100.0
    if c["OG_USE_BETTER_ROTATION"] and np.all(close(prod, np.trunc(grown * (1 - frac)) * w)):
        return "monthly-output-truncated-to-whole-billion-kcal"
    if (not c["OG_USE_BETTER_ROTATION"]) and frac.max() > 0 and np.all(close(prod, grown * w)):
        return "greenhouse-area-not-subtracted-without-relocation"
    return "outdoor-production-differs-from-grown-minus-greenhouse-share"


def safe_compute(ctx, c, kind="direct", **extra):
    """the supply classes must produce the series for every valid constants dictionary: a crash is a failure of the property's
    'one value per simulated month', not a harness problem"""
    try:
        return compute(c)
    except Exception as e:     # noqa: BLE001 - anything the code under test raises on generated-valid input
        import traceback
        fr = [f for f in traceback.extract_tb(e.__traceback__) if "/src/" in f.filename]
        where = "%s:%s" % (fr[-1].filename.split("/src/")[-1], fr[-1].name) if fr else "?"
        ctx.fail("supply-code-raises-on-valid-constants:%s@%s" % (type(e).__name__, where), "%s: %s" % (type(e).__name__, str(e)[:120]),
                 dict(kind=kind, constants=c, **extra))
        raise


def check_constants(ctx, c, key):
    prod, ghk, oc = safe_compute(ctx, c)
    exp, grown, frac = expected_production(c)
    n = c["NMONTHS"]
    nt = (frac.max() > 0) or bool(np.any((exp > 0) & (exp < 1)))
    ctx.event("greenhouse_fraction>0" if frac.max() > 0 else "no_greenhouse")
    ctx.event("relocated" if c["OG_USE_BETTER_ROTATION"] else "not_relocated")
    if np.any((exp > 0) & (exp < 1)):
        ctx.event("sub_billion_month")
    if nt:
        ctx.nontrivial_case(key)
    ctx.sample(dict(case=key, relocated=c["OG_USE_BETTER_ROTATION"], greenhouses=c["ADD_GREENHOUSES"],
                    annual_tons=c["BASELINE_CROP_KCALS"], first_months_production=prod[:14]), limit=3)
    if len(prod) != n or not np.all(np.isfinite(prod)) or np.any(prod < 0):
        ctx.fail("series-not-finite-nonnegative-one-per-month", "production series malformed", dict(constants=c))
    # (1 - greenhouse share) cancels when the share reaches 1: the tolerance is relative to the amount grown, not to the difference
    ok = close(prod, exp, scale=np.maximum(np.abs(grown), np.maximum(np.abs(exp), np.abs(prod))))
    with np.errstate(divide="ignore", invalid="ignore"):
        den = np.maximum(np.abs(grown), np.maximum(np.abs(exp), np.abs(prod)))
        rel = np.where(den > 0, np.abs(prod - exp) / np.where(den > 0, den, 1), 0)
    if np.all(ok):
        ctx.residual("production_rel", rel.max() if len(rel) else 0)
    if not np.all(ok):
        m = int(np.argmin(ok))
        ctx.fail(classify(c, prod, exp, grown, frac),
                 "month %d: production %.9g but grown %.9g x (1-%.6g greenhouse share) x (1-dist waste) = %.9g" %
                 (m, prod[m], grown[m], frac[m], exp[m]), dict(kind="direct", constants=c))
    # greenhouse share: zero until delay+5, monotone, capped
    f = np.asarray(oc_gh_fraction(c), float)
    if c["ADD_GREENHOUSES"] and c["INITIAL_CROP_AREA_FRACTION"] > 0:
        start = c["DELAY"]["GREENHOUSE_MONTHS"] + 5
        if np.any(f[:start] != 0) or np.any(np.diff(f) < -1e-15) or f.max() > c["GREENHOUSE_AREA_MULTIPLIER"] * (1 + 1e-12):
            ctx.fail("greenhouse-share-not-zero-then-monotone-then-capped",
                     "share series %s" % np.round(f[:start + 3], 6), dict(kind="direct", constants=c))
        if not np.all(close(f, frac)):
            m = int(np.argmin(close(f, frac)))
            ctx.fail("greenhouse-share-differs-from-documented-ramp",
                     "month %d share %.9g expected %.9g" % (m, f[m], frac[m]), dict(kind="direct", constants=c))
    elif f.max() != 0:
        ctx.fail("greenhouse-share-nonzero-without-greenhouses", "max %.6g" % f.max(), dict(kind="direct", constants=c))
    # what the covered share of cropland yields: area x (average monthly outdoor yield per hectare x the year's ratio x gain), both wastes
    total = c["INITIAL_GLOBAL_CROP_AREA"] * c["INITIAL_CROP_AREA_FRACTION"]
    ghx, _ = R.greenhouse_output(c["BASELINE_CROP_KCALS"], c["SEASONALITY"], [c["RATIO_CROPS_YEAR%d" % i] for i in range(1, 11)], c["COUNTRY_CODE"], n,
                                 c["OG_USE_BETTER_ROTATION"], c["ROTATION_IMPROVEMENTS"]["POWER_LAW_IMPROVEMENT"], total,
                                 c.get("GREENHOUSE_AREA_MULTIPLIER", 0.0), c["DELAY"].get("GREENHOUSE_MONTHS", 0), c.get("GREENHOUSE_GAIN_PCT", 0),
                                 c["WASTE_DISTRIBUTION"]["CROPS"], c["WASTE_RETAIL"], c["ADD_GREENHOUSES"])
    if len(ghk) != n or not np.all(np.isfinite(ghk)) or np.any(ghk < 0):
        ctx.fail("series-not-finite-nonnegative-one-per-month", "greenhouse series malformed", dict(kind="direct", constants=c))
    okg = close(ghk, ghx)
    if not np.all(okg):
        m = int(np.argmin(okg))
        ctx.fail("greenhouse-output-differs-from-area-times-yield", "month %d: %.9g, documented function gives %.9g" % (m, ghk[m], ghx[m]),
                 dict(kind="direct", constants=c))
    return prod


def oc_gh_fraction(c):
    from src.food_system.greenhouses import Greenhouses
    from src.optimizer.parameters import Parameters
    cc = copy.deepcopy(c)
    with quiet():
        p = Parameters()
        _, oc = p.init_outdoor_crops({}, cc)
        g = Greenhouses(cc)
        g.get_greenhouse_area(cc, oc)
    return g.greenhouse_fraction_area


def metamorphic(ctx, c, k):
    base, _, _ = compute(c)
    # 1. no quantisation: scaling the baseline by k scales every month by k
    c2 = copy.deepcopy(c)
    for key in ("BASELINE_CROP_KCALS", "BASELINE_CROP_FAT", "BASELINE_CROP_PROTEIN"):
        c2[key] = c[key] * k
    scaled, _, _ = compute(c2)
    if not np.all(close(scaled, k * base)):
        m = int(np.argmin(close(scaled, k * base)))
        ctx.fail("monthly-output-truncated-to-whole-billion-kcal" if c["OG_USE_BETTER_ROTATION"] else "scale-law-broken",
                 "k=%.6g month %d: prod(k*baseline)=%.9g but k*prod(baseline)=%.9g" % (k, m, scaled[m], k * base[m]),
                 dict(kind="scale", constants=c, k=k))
    # 2. relocation never lowers any month
    if c["OG_USE_BETTER_ROTATION"]:
        c3 = copy.deepcopy(c)
        c3["OG_USE_BETTER_ROTATION"] = False
        c3["RATIO_INCREASED_CROP_AREA"] = 1
        plain, _, _ = compute(c3)
        bad = base < plain - RTOL * np.maximum(plain, 1e-300) - 1e-15
        if np.any(bad):
            m = int(np.argmax(bad))
            ctx.fail("monthly-output-truncated-to-whole-billion-kcal" if np.all(base == np.trunc(base / max(1e-300, (1 - c["WASTE_DISTRIBUTION"]["CROPS"] / 100))) * (1 - c["WASTE_DISTRIBUTION"]["CROPS"] / 100)) else "relocation-lowers-output",
                     "month %d: relocated %.9g < not relocated %.9g" % (m, base[m], plain[m]),
                     dict(kind="relocation", constants=c))
        if c["RATIO_INCREASED_CROP_AREA"] > 1:
            c4 = copy.deepcopy(c)
            c4["RATIO_INCREASED_CROP_AREA"] = 1
            same, _, _ = compute(c4)
            bad = base < same - RTOL * np.maximum(same, 1e-300) - 1e-15
            if np.any(bad):
                m = int(np.argmax(bad))
                ctx.fail("cropland-expansion-lowers-output", "month %d: expanded %.9g < same area %.9g" % (m, base[m], same[m]),
                         dict(kind="area", constants=c))


def e2e_constants(cp):
    """view of the scenario constants as the reference needs them"""
    c = dict(cp)
    c.setdefault("NUMBER_YEARS_TAKES_TO_REACH_INCREASED_AREA", 3)
    c.setdefault("GREENHOUSE_AREA_MULTIPLIER", 0.0)
    return c


def check_e2e(ctx, iso3, options):
    key = dict(iso3=iso3, options=options)
    try:
        with quiet():
            cp, tcp, out = model.first_round(iso3, options)
    except (AssertionError, SystemExit, Exception) as e:  # completion is C16's subject
        model.abort_or_supply_failure(ctx, e, key)
        return None
    tc = out[1]
    prod = np.asarray(tc["outdoor_crops"].production.kcals, float)
    c = e2e_constants(cp)
    exp, grown, frac = expected_production(c)
    ctx.event("e2e_" + options["scenario"])
    if frac.max() > 0 or np.any((exp > 0) & (exp < 1)):
        ctx.nontrivial_case(key)
    if np.any((exp > 0) & (exp < 1)):
        ctx.event("sub_billion_month")
    ctx.sample(dict(iso3=iso3, scenario=options["scenario"], crop_disruption=options["crop_disruption"],
                    first_months_production=prod[:14]), limit=5)
    ok = close(prod, exp, scale=np.maximum(np.abs(grown), np.maximum(np.abs(exp), np.abs(prod))))
    if not np.all(ok):
        m = int(np.argmin(ok))
        ctx.fail(classify(c, prod, exp, grown, frac),
                 "%s %s month %d: production %.9g, expected grown %.9g x (1-%.6g) x (1-dist) = %.9g" %
                 (iso3, options["scenario"], m, prod[m], grown[m], frac[m], exp[m]), dict(kind="e2e", iso3=iso3, options=options))
    f = np.asarray(tc["outdoor_crops"].production.kcals, float)  # noqa
    return prod


def e2e_pair(ctx, iso3, options):
    """relocated vs not, more area vs same area, on the real pipeline"""
    o_plain = dict(options, scenario="no_resilient_foods")
    o_rel = dict(options, scenario="relocated_crops")
    o_all = dict(options, scenario="all_resilient_foods")
    o_more = dict(options, scenario="all_resilient_foods_and_more_area")
    p = {}
    if options["scenario"] not in ("no_resilient_foods", "relocated_crops", "all_resilient_foods", "all_resilient_foods_and_more_area"):
        check_e2e(ctx, iso3, options)   # the drawn set itself (greenhouse alone, seaweed, industrial foods, ...)
    else:
        check_e2e(ctx, iso3, dict(options, scenario="greenhouse"))
    for name, o in (("plain", o_plain), ("rel", o_rel), ("all", o_all), ("more", o_more)):
        p[name] = check_e2e(ctx, iso3, o)
    if p["plain"] is not None and p["rel"] is not None:
        bad = p["rel"] < p["plain"] * (1 - RTOL) - 1e-15
        if np.any(bad):
            m = int(np.argmax(bad))
            ctx.fail("relocation-lowers-output", "%s month %d: relocated %.9g < not relocated %.9g" % (iso3, m, p["rel"][m], p["plain"][m]),
                     dict(kind="e2e_pair", iso3=iso3, options=options))
    if p["all"] is not None and p["more"] is not None:
        bad = p["more"] < p["all"] * (1 - RTOL) - 1e-15
        if np.any(bad):
            m = int(np.argmax(bad))
            ctx.fail("cropland-expansion-lowers-output", "%s month %d: expanded %.9g < same area %.9g" % (iso3, m, p["more"][m], p["all"][m]),
                     dict(kind="e2e_pair", iso3=iso3, options=options))


def shard(ctx):
    thorough = ctx.tier == "thorough"
    n_direct = 4000 if thorough else 500
    n_e2e = 40 if thorough else 10

    def body(case):
        c, k = case
        check_constants(ctx, c, c)
        metamorphic(ctx, c, k)
    drive(ctx, st.tuples(crop_constants(), st.floats(0.001, 1.0)), body, n_direct, tag="direct")

    def body2(case):
        iso3, options = case
        e2e_pair(ctx, iso3, options)
    drive(ctx, st.tuples(gen.country(small_bias=True), gen.options("country")), body2, n_e2e, shrink=False, tag="e2e")
    if thorough:
        # exhaust the country axis for the four crop-relevant scenario sets under nuclear winter
        isos = model.iso3_list()
        for i, iso in enumerate(isos):
            if i % ctx.nshards != ctx.shard:
                continue
            ctx.count()
            try:
                e2e_pair(ctx, iso, dict(model.BASELINE_COUNTRY, crop_disruption="country_nuclear_winter",
                                        grasses="country_nuclear_winter", fish="nuclear_winter"))
            except Exception as v:
                from vlib.harness import Violation
                if isinstance(v, Violation):
                    ctx.record_violation(v)
                else:
                    raise


def replay(case, ctx):
    ctx.count()
    kind = case.get("kind")
    if kind in ("direct",):
        check_constants(ctx, case["constants"], case["constants"])
    elif kind == "scale":
        metamorphic(ctx, case["constants"], case["k"])
    elif kind in ("relocation", "area"):
        metamorphic(ctx, case["constants"], 0.5)
    elif kind == "e2e":
        check_e2e(ctx, case["iso3"], case["options"])
    elif kind == "e2e_pair":
        e2e_pair(ctx, case["iso3"], case["options"])
    else:
        raise RuntimeError("unknown replay kind %r" % kind)


def _fuzz_direct(ctx):
    def body(case):
        c, k = case
        check_constants(ctx, c, c)
        metamorphic(ctx, c, k)
    return st.tuples(crop_constants(), st.floats(0.001, 1.0)), body


# coverage-guided tier (vlib/fuzz.py): outdoor crops and greenhouses on generated constants
FUZZ_IMPORTS = ["src.food_system.outdoor_crops", "src.food_system.greenhouses", "src.food_system.food"]
FUZZ_TARGETS = {"direct": (_fuzz_direct, 600, 40000, 2)}
