"""C11 — a food quantity's unit labels always describe its numbers."""
import copy
import itertools

import numpy as np
import hypothesis
from hypothesis import strategies as st
from hypothesis.stateful import RuleBasedStateMachine, rule, initialize, precondition, run_state_machine_as_test

from vlib.harness import hyp_settings, Violation, quiet, collecting

PROPERTY = "C11"
RULE = ("(a) rule-based state machine over a pool of (real Food, label/value model) pairs: construction (scalar / series, labels from a "
        "vocabulary of real unit names, 'ratio' and foreign names), + - * / neg abs, number / ndarray / ratio operands on either side, "
        "x[i], x[i:j], get_month, get_first_month, sums, running sums, min/max over months, min_elementwise, rounding, clipping, shift, "
        "in_units_*; after every step the result's three labels, its combined label list, the shape convention (series <=> ' each month') "
        "and its numbers are compared with the model, operands are compared with their pre-call snapshot, and operations on different "
        "labels must be refused; (b) the 16 comparison predicates evaluated on a scalar pair and on the equivalent one-month series pair "
        "for every value triple in a small grid and all four fat/protein inclusion settings (enumerated).  the unary predicates also on a fine grid around their rounding / threshold boundaries with their optional arguments (rounding_decimals, threshold); every ordered pair of (label triple, form) is also ENUMERATED through every binary operation (5400 scripted cases); conversions run under drawn nutrition profiles and populations.  Non-trivial = machine run with "
        ">= 3 steps containing a label-changing operation; predicate case whose operands differ in a nutrient that a flag excludes; distinct "
        "by hash of the step list / case.")
ASSUMPTIONS = ["label conventions as stated in the Food class docstring: series <=> ' each month', one month's value <=> ' per month', totals neither",
               "combinations the class documents as unimplemented ('consider implementing ...') may be refused"]

BASES = [("billion kcals", "thousand tons", "thousand tons"),
         ("percent people fed", "percent people fed", "percent people fed"),
         ("billion people fed", "billion people fed", "billion people fed"),
         ("kcals per person per day", "grams per person per day", "grams per person per day"),
         ("kcals per person per day", "effective kcals per person per day", "effective kcals per person per day"),
         ("million dry caloric tons", "million tons", "million tons"),
         ("ratio", "ratio", "ratio"),
         ("kcal", "g", "g"),
         ("kcals", "grams fat", "grams protein"),
         ("widgets", "widgets", "widgets")]
CONVERTIBLE = set(range(6))
TARGETS = {"in_units_billions_fed": 2, "in_units_percent_fed": 1, "in_units_kcals_equivalent": 4,
           "in_units_kcals_grams_grams_per_person": 3, "in_units_bil_kcals_thou_tons_thou_tons_per_month": 0}
EACH, PER = " each month", " per month"


# nutrition profiles a process may switch between (the two shipped ones share the energy need and differ in fat / protein)
PROFILES = [(2100.0, 47.0, 51.0), (2100.0, 61.7, 59.5), (2100.0, 30.0, 70.0), (1800.0, 47.0, 51.0)]


def set_flags(fat, protein, pop=7.8e9, profile=0):
    from src.food_system.food import Food
    k, f, p = PROFILES[profile]
    Food.conversions.set_nutrition_requirements(kcals_daily=k, fat_daily=f, protein_daily=p, include_fat=fat,
                                                include_protein=protein, population=pop)
    return dict(pop=pop, kcals=k, fat=f, protein=p)


class M:
    """model of a quantity: base label triple, form ('total' | 'per' | 'each'), values (3 arrays or 3 floats)"""

    def __init__(self, base, form, vals):
        self.base, self.form = tuple(base), form
        self.vals = [np.array(v, dtype=float) if form == "each" else float(v) for v in vals]

    @property
    def labels(self):
        suf = {"total": "", "per": PER, "each": EACH}[self.form]
        return [b + suf for b in self.base]

    @property
    def n(self):
        return len(self.vals[0]) if self.form == "each" else None

    def is_ratio(self):
        return all("ratio" in b for b in self.base)


def snapshot(f):
    return (copy.deepcopy(f.kcals), copy.deepcopy(f.fat), copy.deepcopy(f.protein), f.kcals_units, f.fat_units, f.protein_units,
            list(f.units))


def snap_equal(a, b):
    for x, y in zip(a[:3], b[:3]):
        if not np.array_equal(np.asarray(x, float), np.asarray(y, float), equal_nan=True):
            return False
        if np.ndim(x) != np.ndim(y):
            return False
    return a[3:] == b[3:]


def build(m):
    from src.food_system.food import Food
    k, f, p = m.vals
    if m.form == "each":
        return Food(kcals=np.array(k), fat=np.array(f), protein=np.array(p), kcals_units=m.labels[0], fat_units=m.labels[1],
                    protein_units=m.labels[2])
    return Food(kcals=float(k), fat=float(f), protein=float(p), kcals_units=m.labels[0], fat_units=m.labels[1], protein_units=m.labels[2])


def make_machine(ctx):
    from src.food_system.food import Food

    vals = st.sampled_from([0.0, 1.0, 2.0, -1.0, 0.5, 3.0, 10.0]) | st.floats(-100, 100, allow_nan=False).map(lambda x: round(x, 3))

    class FoodMachine(RuleBasedStateMachine):
        def __init__(self):
            super().__init__()
            self.pool = []
            self.steps = []
            self.label_change = False
            set_flags(False, False)

        # -- helpers --------------------------------------------------------------------------
        def case(self):
            return dict(kind="machine", steps=list(self.steps))

        def pick(self, i):
            return self.pool[i % len(self.pool)]

        def verify(self, op, result, exp, operands, snaps):
            case = self.case()
            for (f, _), s in zip(operands, snaps):
                if not snap_equal(snapshot(f), s):
                    ctx.fail("operand-modified:" + op, "%s changed an operand: before %r after %r" % (op, s[3:], snapshot(f)[3:]), case)
            if not isinstance(result, Food):
                ctx.fail("result-not-a-quantity:" + op, repr(type(result)), case)
            got = [result.kcals_units, result.fat_units, result.protein_units]
            if got != exp.labels:
                ctx.fail("wrong-unit-labels:" + op, "%s returned labels %r, expected %r" % (op, got, exp.labels), case)
            if list(result.units) != got:
                ctx.fail("combined-label-list-stale:" + op, "%s: labels %r but combined list %r" % (op, got, list(result.units)), case)
            series = isinstance(result.kcals, np.ndarray) and np.ndim(result.kcals) == 1
            if series != (exp.form == "each") or series != all(EACH in u for u in got) or (not series and any(EACH in u for u in got)):
                ctx.fail("labels-do-not-match-shape:" + op, "%s: series=%s labels %r" % (op, series, got), case)
            for name, a, b in zip(("kcals", "fat", "protein"), (result.kcals, result.fat, result.protein), exp.vals):
                a1, b1 = np.asarray(a, float), np.asarray(b, float)
                if a1.shape != b1.shape or not np.allclose(a1, b1, rtol=1e-9, atol=1e-12, equal_nan=True):
                    ctx.fail("wrong-numbers:" + op, "%s %s: got %r expected %r" % (op, name, a1.tolist(), b1.tolist()), case)
            if exp.labels != operands[0][1].labels if operands else False:
                self.label_change = True
            # adopt the real numbers so that rounding noise cannot accumulate in the model over later steps
            exp.vals = [np.array(a, dtype=float) if exp.form == "each" else float(a) for a in (result.kcals, result.fat, result.protein)]
            self.pool.append((result, exp))
            if len(self.pool) > 12:
                self.pool.pop(0)

        def expect_refusal(self, op, fn, operands):
            snaps = [snapshot(f) for f, _ in operands]
            try:
                with quiet():
                    r = fn()
            except AssertionError:
                ctx.event("refused_different_units")
                for (f, _), s in zip(operands, snaps):
                    if not snap_equal(snapshot(f), s):
                        ctx.fail("operand-modified:" + op, "refused %s changed an operand" % op, self.case())
                return
            ctx.fail("different-units-combined:" + op, "%s accepted labels %r and %r -> %r" %
                     (op, operands[0][1].labels, operands[1][1].labels, getattr(r, "units", r)), self.case())

        def run(self, op, fn, exp, operands, may_refuse=False):
            snaps = [snapshot(f) for f, _ in operands]
            try:
                with quiet(), np.errstate(all="ignore"):
                    r = fn()
            except AssertionError as e:
                if may_refuse:
                    ctx.event("unimplemented_combination_refused")
                    return
                ctx.fail("supported-operation-refused:" + op, "%s raised %r" % (op, str(e)[:80]), self.case())
            self.verify(op, r, exp, operands, snaps)

        # -- rules ----------------------------------------------------------------------------
        @initialize()
        def start(self):
            self.steps = []

        @rule(b=st.integers(0, len(BASES) - 1), form=st.sampled_from(["total", "per", "each", "each"]), n=st.sampled_from([1, 2, 3, 3]),
              v=st.lists(vals, min_size=9, max_size=9))
        def construct(self, b, form, n, v):
            self.steps.append(["construct", b, form, n, v])
            if form == "each":
                m = M(BASES[b], form, [v[0:n], v[3:3 + n], v[6:6 + n]])
            else:
                m = M(BASES[b], form, [v[0], v[3], v[6]])
            self.run("construct", lambda: build(m), m, [])

        @precondition(lambda self: len(self.pool) >= 1)
        @rule(i=st.integers(0, 99), j=st.integers(0, 99), op=st.sampled_from(["add", "sub", "min_elementwise", "div"]))
        def binary(self, i, j, op):
            self.steps.append(["binary", i, j, op])
            (a, ma), (b, mb) = self.pick(i), self.pick(j)
            fn = {"add": lambda: a + b, "sub": lambda: a - b, "min_elementwise": lambda: Food.min_elementwise(a, b), "div": lambda: a / b}[op]
            if ma.labels != mb.labels:
                return self.expect_refusal(op, fn, [(a, ma), (b, mb)])
            if ma.n != mb.n:
                return  # same labels, different horizon: no caller does this
            f = {"add": np.add, "sub": np.subtract, "min_elementwise": np.minimum, "div": np.divide}[op]
            with np.errstate(all="ignore"):
                v = [f(x, y) for x, y in zip(ma.vals, mb.vals)]
            if op == "div":
                exp = M(("ratio", "ratio", "ratio"), "each" if ma.form == "each" else "total", v)
            else:
                exp = M(ma.base, ma.form, v)
            if op == "div" and any(np.any(np.asarray(y) == 0) for y in mb.vals):
                return  # division by zero (ZeroDivisionError for plain floats, inf/nan for series) is not a labelling question
            self.run(op, fn, exp, [(a, ma), (b, mb)])

        @precondition(lambda self: len(self.pool) >= 1)
        @rule(i=st.integers(0, 99), j=st.integers(0, 99), swap=st.booleans())
        def times_food(self, i, j, swap):
            self.steps.append(["times_food", i, j, swap])
            (a, ma), (b, mb) = self.pick(i), self.pick(j)
            if swap:
                (a, ma), (b, mb) = (b, mb), (a, ma)
            if not (ma.is_ratio() or mb.is_ratio()):
                try:
                    with quiet():
                        a * b
                except AssertionError:
                    ctx.event("refused_non_ratio_product")
                    return
                except ValueError:
                    return
                ctx.fail("product-of-two-non-ratios-accepted", "%r * %r" % (ma.labels, mb.labels), self.case())
            if ma.n is not None and mb.n is not None and ma.n != mb.n:
                return
            other = mb if ma.is_ratio() else ma
            if ma.is_ratio() and mb.is_ratio():
                if ma.form != mb.form and "each" not in (ma.form, mb.form):
                    return  # two single-valued ratios of different form: either label is defensible
                other = mb if mb.form == "each" or ma.form != "each" else ma
            form = "each" if "each" in (ma.form, mb.form) else other.form
            v = [np.multiply(x, y) for x, y in zip(ma.vals, mb.vals)]
            exp = M(other.base, form, v)
            # the class documents series x scalar and scalar x series only when the scalar is the ratio
            may_refuse = (ma.form == "each") != (mb.form == "each") and not (ma if ma.form != "each" else mb).is_ratio()
            # a per-month ratio keeps its own suffix question open: only assert when the non-series operand is a plain ratio
            self.run("ratio*quantity" if ma.is_ratio() else "quantity*ratio", lambda: a * b, exp, [(a, ma), (b, mb)], may_refuse=may_refuse)

        @precondition(lambda self: len(self.pool) >= 1)
        @rule(i=st.integers(0, 99), k=st.sampled_from([0.0, 1.0, 2.0, -1.0, 0.5]) | st.integers(-3, 3), op=st.sampled_from(["mul", "rmul", "div"]))
        def number(self, i, k, op):
            self.steps.append(["number", i, k, op])
            a, ma = self.pick(i)
            if op == "div" and k == 0:
                return
            v = [x / k if op == "div" else x * k for x in ma.vals]
            fn = {"mul": lambda: a * k, "rmul": lambda: k * a, "div": lambda: a / k}[op]
            self.run(op + "_number", fn, M(ma.base, ma.form, v), [(a, ma)])

        @precondition(lambda self: any(m.form != "each" for _, m in self.pool))
        @rule(i=st.integers(0, 99), arr=st.lists(vals, min_size=1, max_size=3))
        def times_array(self, i, arr):
            self.steps.append(["times_array", i, arr])
            cands = [(f, m) for f, m in self.pool if m.form == "total"]
            if not cands:
                return
            a, ma = cands[i % len(cands)]
            arr = np.array(arr, dtype=float)
            self.run("scalar*ndarray", lambda: a * arr, M(ma.base, "each", [x * arr for x in ma.vals]), [(a, ma)])

        @precondition(lambda self: len(self.pool) >= 1)
        @rule(i=st.integers(0, 99), op=st.sampled_from(["neg", "abs", "clip"]))
        def unary(self, i, op):
            self.steps.append(["unary", i, op])
            a, ma = self.pick(i)
            f = {"neg": np.negative, "abs": np.abs, "clip": lambda x: np.where(np.asarray(x) < 0, 0, x)}[op]
            fn = {"neg": lambda: -a, "abs": lambda: a.get_abs_values(), "clip": lambda: a.negative_values_to_zero()}[op]
            self.run(op, fn, M(ma.base, ma.form, [f(x) for x in ma.vals]), [(a, ma)])

        @precondition(lambda self: any(m.form == "each" for _, m in self.pool))
        @rule(i=st.integers(0, 99), k=st.integers(0, 2), d=st.integers(0, 3),
              op=st.sampled_from(["getitem", "slice", "get_month", "get_first_month", "sum", "running", "min_all", "max_all", "round", "shift"]))
        def series_op(self, i, k, d, op):
            self.steps.append(["series_op", i, k, d, op])
            cands = [(f, m) for f, m in self.pool if m.form == "each"]
            a, ma = cands[i % len(cands)]
            k = k % ma.n
            V = ma.vals
            # a month index is a Python int, or what numpy hands back (np.int64 from arange / argmax, np.int32): d picks which
            key = [k, np.int64(k), np.int32(k), np.arange(ma.n)[k]][d % 4]
            if op == "getitem":
                fn, exp = (lambda: a[key]), M(ma.base, "per", [x[k] for x in V])
            elif op == "slice":
                if k >= ma.n:
                    return
                fn, exp = (lambda: a[k:]), M(ma.base, "each", [x[k:] for x in V])
            elif op == "get_month":
                fn, exp = (lambda: a.get_month(key)), M(ma.base, "per", [x[k] for x in V])
            elif op == "get_first_month":
                fn, exp = (lambda: a.get_first_month()), M(ma.base, "per", [x[0] for x in V])
            elif op == "sum":
                fn, exp = (lambda: a.get_nutrients_sum()), M(ma.base, "total", [x.sum() for x in V])
            elif op == "running":
                fn, exp = (lambda: a.get_running_total_nutrients_sum()), M(ma.base, "each", [np.cumsum(x) for x in V])
            elif op == "min_all":
                fn, exp = (lambda: a.get_min_all_months()), M(ma.base, "total", [x.min() for x in V])
            elif op == "max_all":
                fn, exp = (lambda: a.get_max_all_months()), M(ma.base, "total", [x.max() for x in V])
            elif op == "round":
                fn, exp = (lambda: a.get_rounded_to_decimal(d)), M(ma.base, "each", [np.round(x, d) for x in V])
            else:
                def sh(x):
                    y = np.roll(x, k)
                    y[:k] = 0
                    return y
                fn, exp = (lambda: a.shift(k)), M(ma.base, "each", [sh(x) for x in V])
            self.run(op, fn, exp, [(a, ma)])

        @precondition(lambda self: any(BASES.index(m.base) in CONVERTIBLE for _, m in self.pool if m.base in BASES))
        @rule(i=st.integers(0, 99), tgt=st.sampled_from(sorted(TARGETS)), fat=st.booleans(), protein=st.booleans(),
              profile=st.sampled_from([0, 0, 1, 2, 3]), big=st.booleans())
        def convert(self, i, tgt, fat, protein, profile=0, big=True):
            target = tgt
            self.steps.append(["convert", i, target, fat, protein, profile, big])
            cands = [(f, m) for f, m in self.pool if m.base in BASES and BASES.index(m.base) in CONVERTIBLE]
            a, ma = cands[i % len(cands)]
            # the process-wide settings are re-established before the conversion, sometimes with another nutrition profile or population
            sett = set_flags(fat, protein, pop=7.8e9 if big else 1.0e7, profile=profile)
            if profile or not big:
                ctx.event("convert_after_settings_change")
            from vlib.ref import ref_units
            tb = BASES[TARGETS[target]]
            conv = [ref_units.factor(fb, tbk, nut, sett) for fb, tbk, nut in zip(ma.base, tb, ("kcals", "fat", "protein"))]
            self.run(target, lambda: getattr(a, target)(), M(tb, ma.form, [x * c for x, c in zip(ma.vals, conv)]), [(a, ma)])

        def teardown(self):
            ctx.count()
            if len(self.steps) >= 3 and self.label_change:
                ctx.nontrivial_case(self.steps)
            ctx.sample(dict(steps=self.steps[:8]), limit=2)
            set_flags(False, False)

    return FoodMachine


# -------------------------------------------------------------------------------------------------
BINARY = ["all_greater_than", "all_less_than", "any_greater_than", "any_less_than", "all_greater_than_or_equal_to",
          "all_less_than_or_equal_to", "any_greater_than_or_equal_to", "any_less_than_or_equal_to", "__eq__", "__ne__"]
UNARY = ["is_never_negative", "all_equals_zero", "any_equals_zero", "all_greater_than_zero", "any_greater_than_zero",
         "all_greater_than_or_equal_to_zero"]


# optional arguments of the unary predicates (the defaults are None = call without argument)
PRED_ARGS = {"all_equals_zero": [None, dict(rounding_decimals=3), dict(rounding_decimals=0)],
             "all_greater_than_or_equal_to_zero": [None, dict(threshold=1e-8), dict(threshold=1.0)]}
# values on both sides of the rounding / threshold boundaries of those predicates (5e-10, 1e-9, 1e-8, 5e-4, 0.5, 1)
FINE = [0.0, 4e-10, -4e-10, 6e-10, -6e-10, 1.1e-9, -1.1e-9, -2e-8, 4e-4, 6e-4, -6e-4, 0.4, 0.6, -0.6, -1.5, 2.0]


def predicate_case(ctx, pred, a, b, fat, protein, kw=None):
    from src.food_system.food import Food
    set_flags(fat, protein)
    case = dict(kind="predicate", pred=pred, a=list(a), b=list(b) if b is not None else None, fat=fat, protein=protein)
    if kw:
        case["kw"] = kw
    sa = Food(kcals=a[0], fat=a[1], protein=a[2])
    la = Food(kcals=np.array([a[0]]), fat=np.array([a[1]]), protein=np.array([a[2]]))
    try:
        if b is None:
            rs, rl = getattr(sa, pred)(**(kw or {})), getattr(la, pred)(**(kw or {}))
        else:
            sb = Food(kcals=b[0], fat=b[1], protein=b[2])
            lb = Food(kcals=np.array([b[0]]), fat=np.array([b[1]]), protein=np.array([b[2]]))
            rs, rl = getattr(sa, pred)(sb), getattr(la, pred)(lb)
    finally:
        set_flags(False, False)
    ctx.event("pred_" + pred)
    differs_in_excluded = (not fat and (b is None and a[1] != a[0] or b is not None and (a[1] > b[1]) != (a[0] > b[0]))) or \
                          (not protein and (b is None and a[2] != a[0] or b is not None and (a[2] > b[2]) != (a[0] > b[0])))
    if differs_in_excluded:
        ctx.nontrivial_case(case)
    if bool(rs) != bool(rl):
        ctx.fail("predicate-scalar-vs-series:" + pred,
                 "%s with fat %s / protein %s: single value -> %s, one-month series -> %s (a=%r b=%r)" %
                 (pred + (repr(kw) if kw else ""), "counted" if fat else "ignored", "counted" if protein else "ignored", bool(rs), bool(rl), a, b), case)


def shard(ctx):
    thorough = ctx.tier == "thorough"
    Mc = make_machine(ctx)
    seed = (ctx.seed * 1000 + ctx.shard) * 11 + 5
    with collecting(ctx):
        run_state_machine_as_test(hypothesis.seed(seed)(Mc), settings=hyp_settings(6000 if thorough else 400, shrink=True, stateful_steps=30))
    # every ordered pair of (label triple, form) through every binary operation, enumerated (the random histories meet a particular pair -
    # say a series ratio on the left of a series whose fat and protein labels differ - only now and then)
    v = [2.0, 3.0, 4.0, 5.0, 6.0, 7.0, -8.0, 9.0, 10.0]
    forms = ["total", "per", "each"]
    scripts = []
    for b1, f1, b2, f2 in itertools.product(range(len(BASES)), forms, range(len(BASES)), forms):
        for op in (["binary", 0, 1, "add"], ["binary", 0, 1, "sub"], ["binary", 0, 1, "min_elementwise"], ["binary", 0, 1, "div"],
                   ["times_food", 0, 1, False], ["times_food", 0, 1, True]):
            scripts.append([["construct", b1, f1, 2, v], ["construct", b2, f2, 2, v], op])
    for k, steps in enumerate(scripts):
        if k % ctx.nshards != ctx.shard:
            continue
        try:
            replay(dict(kind="machine", steps=steps), ctx)
            ctx.event("enumerated_pair_script")
        except Violation as viol:
            ctx.record_violation(viol)
    grid = [-1.0, 0.0, 1.0, 2.0] if thorough else [-1.0, 0.0, 1.0]
    triples = list(itertools.product(grid, repeat=3))
    jobs = []
    for pred in UNARY:
        for a in triples:
            jobs.append((pred, a, None))
    for pred in BINARY:
        for a in triples:
            for b in triples:
                jobs.append((pred, a, b))
    ctx.sample(dict(predicate_grid=grid, predicates=BINARY + UNARY, flag_settings=4), limit=3)
    for n, (pred, a, b) in enumerate(jobs):
        if n % ctx.nshards != ctx.shard:
            continue
        for fat in (False, True):
            for protein in (False, True):
                ctx.count()
                try:
                    predicate_case(ctx, pred, a, b, fat, protein)
                except Violation as v:
                    ctx.record_violation(v)
    # the unary predicates again on a fine grid around their rounding / threshold boundaries, with their optional arguments
    fine = list(itertools.product(FINE, repeat=3))
    n = 0
    for pred in UNARY:
        for kw in PRED_ARGS.get(pred, [None]):
            for a in fine:
                n += 1
                if n % ctx.nshards != ctx.shard:
                    continue
                for fat in (False, True):
                    for protein in (False, True):
                        ctx.count()
                        try:
                            predicate_case(ctx, pred, a, None, fat, protein, kw)
                            ctx.event("pred_fine_grid")
                        except Violation as v:
                            ctx.record_violation(v)


EXHAUSTIVE = {"quick": False, "thorough": False}


def replay(case, ctx):
    ctx.count()
    if case["kind"] == "predicate":
        predicate_case(ctx, case["pred"], case["a"], case["b"], case["fat"], case["protein"], case.get("kw"))
        return
    Mc = make_machine(ctx)
    m = Mc()
    try:
        m.start()
        for s in case["steps"]:
            name, args = s[0], s[1:]
            fn = getattr(m, name)
            # call the undecorated rule body
            body = fn.hypothesis_stateful_rule.function if hasattr(fn, "hypothesis_stateful_rule") else fn
            body(m, *args)
    finally:
        m.teardown()
