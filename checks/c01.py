"""C01 — reported allocations never use food that does not exist."""
from hypothesis import strategies as st

from vlib import model, gen, audit
from vlib.harness import drive, Violation

PROPERTY = "C01"
RULE = ("three-round runs through the public runner for Hypothesis-drawn (country, option dictionary) pairs built by construction from the "
        "dispatcher's value tables (9 resilient-food sets, 4 stock regimes, 7 shut-offs, waste, nutrition, intake caps, breeding, culling, "
        "stored food, crop/grass/fish variants, numeric overrides, horizons 48..120) plus world-scale runs; every linear programme the run "
        "solves is captured (inputs + variable values after the last solve) and audited against balances recomputed from the supplies: "
        "non-negativity, cumulative stored food / crops / meat, monthly SCP and sugar, seaweed ledger and bounds, full use at the horizon, "
        "feed/biofuel totals vs charge (human rounds) or ceilings + monotone decrease (feed round).  The rows holding the largest or smallest value of some numeric column of the input table are always run under three "
        "waste / stock bundles.  Non-trivial = a completed run in which "
        "some round has a stock fully used (within 1 %) and a positive feed+biofuel charge; distinct by (iso3, options).  Thorough: the "
        "164-country axis is enumerated for 12 option bundles.")
ASSUMPTIONS = ["tolerance 1e-5 billion kcal absolute + 2e-6 relative (CBC primal tolerance 1e-7 on scaled rows)",
               "in the documented 'no storage between years' regime stored food need not be used up and meat is capped month by month",
               "runs that abort (infeasible LP, internal assertion) are counted, not judged: completion is C16"]

BUNDLES = [
    dict(),
    dict(crop_disruption="country_nuclear_winter", grasses="country_nuclear_winter", fish="nuclear_winter", nutrition="catastrophe",
         ratio_stocks_untouched="zero", meat_strategy="reduce_breeding"),
    dict(crop_disruption="country_nuclear_winter", grasses="country_nuclear_winter", fish="nuclear_winter", scenario="all_resilient_foods",
         shutoff="long_delayed_shutoff", meat_strategy="reduce_breeding", waste="doubled_prices_in_country"),
    dict(crop_disruption="country_nuclear_winter", grasses="country_nuclear_winter", fish="nuclear_winter", scenario="seaweed",
         shutoff="continued_after_10_percent_fed", intake_constraints="disabled_for_humans"),
    dict(ratio_stocks_untouched="no_stored_between_years", seasonality="no_seasonality", shutoff="short_delayed_shutoff"),
    dict(ratio_stocks_untouched="baseline_no_stored_between_years", crop_disruption="country_nuclear_winter", shutoff="immediate",
         cull="dont_eat_culled"),
    dict(scenario="industrial_foods", crop_disruption="country_nuclear_winter", grasses="country_nuclear_winter", shutoff="continued",
         meat_strategy="feed_only_ruminants"),
    dict(scenario="all_resilient_foods_and_more_area", crop_disruption="country_nuclear_winter", shutoff="one_month_delayed_shutoff",
         waste="tripled_prices_in_country", NMONTHS=84),
    dict(stored_food="zero", crop_disruption="all_crops_die_instantly", grasses="all_crops_die_instantly", fish="zero", shutoff="immediate"),
    dict(scenario="greenhouse", crop_disruption="country_nuclear_winter", shutoff="long_delayed_shutoff_after_10_percent_fed", NMONTHS=60),
    dict(scenario="relocated_crops", crop_disruption="country_nuclear_winter", waste="zero", shutoff="continued", NMONTHS=48),
    dict(scenario="methane_scp", crop_disruption="country_nuclear_winter", nutrition="catastrophe", cull="dont_eat_culled", shutoff="continued"),
]


def case_strategy():
    country = st.tuples(gen.country(), gen.options("country", overrides=True, threshold=True))
    world = st.tuples(st.just("WOR"), gen.options("global", threshold=True))
    return st.one_of(country, country, country, country, country, country, country, world)


def run_and_audit(ctx, iso3, options, title):
    key = dict(iso3=iso3, options=options)
    r = model.run_case(iso3, options, title=title)
    if not r["ok"]:
        ctx.abort("%s@%s" % (r["exc_type"], r["exc_frame"]))
        ctx.event("aborted")
        if len(ctx.notes) < 3:
            ctx.notes.append("run did not complete (counted as aborted, judged by C16): %s %r: %s@%s" % (iso3, options, r["exc_type"], r["exc_frame"]))
        return None
    nt = False
    for i, cap in enumerate(r["cap"].opt):
        viol, res, info = audit.audit(cap)
        for k, x in res.items():
            ctx.residual(k, x)
        ctx.event("round_" + cap["type"])
        if info["tight_stock"] and info["charge"] > 0:
            nt = True
        for sig, msg, mag in viol:
            ctx.fail(sig, "%s %s lp#%d (%s, NMONTHS %d): %s" % (iso3, options.get("scenario"), i, cap["type"], options["NMONTHS"], msg),
                     dict(kind="run", iso3=iso3, options=options))
    if nt:
        ctx.nontrivial_case(key)
    ctx.event("regime_" + options["ratio_stocks_untouched"])
    ctx.sample(dict(iso3=iso3, options={k: options[k] for k in ("scenario", "ratio_stocks_untouched", "shutoff", "NMONTHS")},
                    lps=len(r["cap"].opt), percent_fed=r["result"].percent_people_fed), limit=4)
    return r


def shard(ctx):
    thorough = ctx.tier == "thorough"
    n = 130 if thorough else 20

    def body(case):
        iso3, options = case
        run_and_audit(ctx, iso3, options, "c01_%d_%d" % (ctx.shard, ctx.evaluations))
    drive(ctx, case_strategy(), body, n, shrink=False, tag="runs")
    model.run_fixed(ctx, model.extreme_cases_wide(), lambda iso, o, k: (ctx.count(), run_and_audit(ctx, iso, o, "c01x_%s" % iso)))
    if thorough:
        isos = model.iso3_list()
        for i, iso in enumerate(isos):
            if i % ctx.nshards != ctx.shard:
                continue
            for b, bundle in enumerate(BUNDLES):
                ctx.count()
                try:
                    run_and_audit(ctx, iso, dict(model.BASELINE_COUNTRY, **bundle), "c01e_%s_%d" % (iso, b))
                except Violation as v:
                    ctx.record_violation(v)


def replay(case, ctx):
    ctx.count()
    run_and_audit(ctx, case["iso3"], case["options"], "c01_replay")
