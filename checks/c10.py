"""C10 — unit conversions are mutually consistent and anchored to the population's needs."""
import itertools

import numpy as np
from hypothesis import strategies as st

from vlib import gen
from vlib.harness import drive, quiet, Violation, collecting
from vlib.ref import ref_units as RU

PROPERTY = "C10"
RULE = ("all (form in total / per month / each month) x (5 energy x 6 fat x 6 protein unit names) source and target combinations are "
        "enumerated per drawn settings (population 1e3..1e10, daily needs 500..5000 kcal, 10..200 g fat, 10..200 g protein; scalar and "
        "series shapes, drawn values written as float arrays, Python lists or whole numbers of integer type): Food.in_units is compared with a dimensional reference, the round trip A->B->A and the triangle "
        "A->C->B are checked, form and shape must be preserved, the five in_units_* helpers and the ratio-based per-person conversion are compared with in_units, the three anchor "
        "identities are asserted, unknown names must be rejected.  Non-trivial = conversion between two different base names under "
        "non-default settings; distinct by (settings, names, form).")
ASSUMPTIONS = ["relative tolerance 1e-12 for one conversion, 1e-11 for chains (probe: worst 3.6e-16)",
               "reference unit sizes in vlib/ref/ref_units.py: 30-day month, 4000 kcal per kg dry caloric matter"]
EXHAUSTIVE = {"quick": False, "thorough": False}
NUT = ("kcals", "fat", "protein")
SUFFIX = {"total": "", "per": " per month", "each": " each month"}
# quantities also arise from a series: one month taken out of it (per-month form) or its sum / minimum over the months (total form)
DERIVED = ("per<-get_month", "per<-index", "per<-get_first_month", "total<-sum", "total<-min")


@st.composite
def settings_case(draw):
    return dict(pop=draw(gen.magnitude(3, 10) | st.sampled_from([7.8e9, 1e7, 287371.0])),
                kcals=draw(st.sampled_from([2100.0]) | st.floats(500, 5000)),
                fat=draw(st.sampled_from([47.0, 61.7]) | st.floats(10, 200)),
                protein=draw(st.sampled_from([51.0, 59.5]) | st.floats(10, 200)),
                vals=draw(st.lists(st.floats(1e-3, 1e6) | st.floats(-1e6, -1e-3) | st.sampled_from([0.0, 1.0, -1.0]), min_size=9, max_size=9)),
                n=draw(st.sampled_from([1, 2, 3])),
                # how the caller wrote the numbers down: float arrays, Python lists, and whole numbers given as ints (int64 arrays,
                # lists of ints, int scalars) - the constructor accepts all of them and the tests of the repository use them
                container=draw(st.sampled_from(["ndarray_float", "ndarray_float", "list_float", "ndarray_int", "list_int"])))


def apply_settings(c):
    from src.food_system.food import Food
    Food.conversions.set_nutrition_requirements(kcals_daily=c["kcals"], fat_daily=c["fat"], protein_daily=c["protein"],
                                                include_fat=False, include_protein=False, population=c["pop"])


def mk(units, form, c):
    from src.food_system.food import Food
    v = c["vals"]
    if "<-" in form:
        series = mk(units, "each", c)
        how = form.split("<-")[1]
        i = c["n"] - 1
        with quiet():
            return {"get_month": lambda: series.get_month(i), "index": lambda: series[i], "get_first_month": series.get_first_month,
                    "sum": series.get_nutrients_sum, "min": series.get_min_all_months}[how]()
    lab = [u + SUFFIX[form] for u in units]
    cont = c.get("container", "ndarray_float")
    if cont.endswith("_int"):
        v = [int(round(x)) if abs(x) >= 0.5 else (1 if x > 0 else -1 if x < 0 else 0) for x in v]
    if form == "each":
        n = c["n"]
        wrap = (lambda x: list(x)) if cont.startswith("list") else (lambda x: np.array(x))
        return Food(wrap(v[0:n]), wrap(v[3:3 + n]), wrap(v[6:6 + n]), *lab)
    if cont.endswith("_int"):
        return Food(v[0], v[3], v[6], *lab)
    return Food(float(v[0]), float(v[3]), float(v[6]), *lab)


def arr(f):
    return [np.asarray(f.kcals, float), np.asarray(f.fat, float), np.asarray(f.protein, float)]


def rel(a, b):
    a, b = np.asarray(a, float), np.asarray(b, float)
    d = np.abs(a - b)
    s = np.maximum(np.abs(a), np.abs(b))
    return float(np.max(np.where(s > 0, d / np.where(s > 0, s, 1), 0)))


def one_settings(ctx, c, pairs_stride=1, offset=0, history=()):
    apply_settings(c)
    hist = [dict(pop=h['pop'], kcals=h['kcals'], fat=h['fat'], protein=h['protein']) for h in history]
    s = dict(pop=c["pop"], kcals=c["kcals"], fat=c["fat"], protein=c["protein"])
    triples = list(itertools.product(RU.KCAL_UNITS, RU.MASS_UNITS, RU.MASS_UNITS))
    default = (c["pop"], c["kcals"], c["fat"], c["protein"]) == (7.8e9, 2100.0, 47.0, 51.0)
    k = 0
    for form in ("total", "per", "each") + DERIVED:
        derived = "<-" in form
        for src in triples:
            a = mk(src, form, c)
            va = arr(a)
            for dst in triples:
                k += 1
                if (k + offset) % (pairs_stride * (6 if derived else 1)):
                    continue
                ctx.count()
                case = dict(kind="conv", settings=s, vals=c["vals"], n=c["n"], container=c.get("container", "ndarray_float"), form=form, src=list(src), dst=list(dst), history=hist)
                with quiet():
                    b = a.in_units(*dst)
                exp_lab = [u + SUFFIX[form.split("<-")[0]] for u in dst]
                got_lab = [b.kcals_units, b.fat_units, b.protein_units]
                if got_lab != exp_lab or list(b.units) != exp_lab:
                    ctx.fail("conversion-changes-form-or-labels", "%s %r -> %r labelled %r" % (form, src, dst, got_lab), case)
                vb = arr(b)
                for i in range(3):
                    if vb[i].shape != va[i].shape:
                        ctx.fail("conversion-changes-shape", "%r -> %r" % (src, dst), case)
                    f = RU.factor(src[i], dst[i], NUT[i], s)
                    r = rel(vb[i], va[i] * f)
                    ctx.residual("single_conversion_rel", r)
                    if r > 1e-12:
                        ctx.fail("conversion-factor-differs-from-dimensional-reference:%s->%s" % (src[i], dst[i]),
                                 "%s %s: %r x %.17g = %r expected, got %r" % (NUT[i], form, va[i].tolist(), f, (va[i] * f).tolist(), vb[i].tolist()), case)
                with quiet():
                    back = b.in_units(*src)
                if [back.kcals_units, back.fat_units, back.protein_units] != [u + SUFFIX[form.split("<-")[0]] for u in src]:
                    ctx.fail("round-trip-changes-form-or-labels", "%s %r -> %r -> back labelled %r" % (form, src, dst, back.units), case)
                r = max(rel(x, y) for x, y in zip(arr(back), va))
                ctx.residual("round_trip_rel", r)
                if r > 1e-11:
                    ctx.fail("round-trip-not-identity", "%r -> %r -> back differs by %.3g" % (src, dst, r), case)
                if src != dst and not default:
                    ctx.nontrivial_case(dict(s=s, src=src, dst=dst, form=form))
                # triangle through a third unit (one per pair, rotating)
                mid = triples[(k * 7) % len(triples)]
                with quiet():
                    via = a.in_units(*mid).in_units(*dst)
                r = max(rel(x, y) for x, y in zip(arr(via), vb))
                if r > 1e-11:
                    ctx.fail("conversion-through-intermediate-differs", "%r -> %r -> %r differs by %.3g" % (src, mid, dst, r), case)
    anchors_and_helpers(ctx, c, s, hist)


def anchors_and_helpers(ctx, c, s, hist=()):
    from src.food_system.food import Food
    P, K, F, Pr = s["pop"], s["kcals"], s["fat"], s["protein"]
    case = dict(kind="anchor", settings=s, vals=c["vals"], n=c["n"], container=c.get("container", "ndarray_float"), history=list(hist))
    need = Food(P * K * 30 / 1e9, P * F * 30 / 1e9, P * Pr * 30 / 1e9, "billion kcals per month", "thousand tons per month", "thousand tons per month")
    with quiet():
        pf = need.in_units_percent_fed()
        bf = need.in_units_billions_fed()
        pp = need.in_units_kcals_grams_grams_per_person()
        ke = need.in_units_kcals_equivalent()
    ctx.count()
    for name, f, exp in (("percent fed", pf, [100, 100, 100]), ("billions fed", bf, [P / 1e9] * 3), ("per person per day", pp, [K, F, Pr]),
                         ("kcals equivalent", ke, [K, K, K])):
        got = [float(f.kcals), float(f.fat), float(f.protein)]
        if rel(got, exp) > 1e-12:
            ctx.fail("anchor-identity-broken:" + name, "exact monthly need -> %r, expected %r" % (got, exp), case)
    # helpers == in_units with their documented targets, in all forms
    helpers = {"in_units_billions_fed": ("billion people fed",) * 3, "in_units_percent_fed": ("percent people fed",) * 3,
               "in_units_kcals_equivalent": ("kcals per person per day", "effective kcals per person per day", "effective kcals per person per day"),
               "in_units_kcals_grams_grams_per_person": ("kcals per person per day", "grams per person per day", "grams per person per day"),
               "in_units_bil_kcals_thou_tons_thou_tons_per_month": ("billion kcals", "thousand tons", "thousand tons")}
    for form in ("total", "per", "each"):
        a = mk(("billion kcals", "thousand tons", "thousand tons"), form, c)
        for h, tgt in helpers.items():
            ctx.count()
            with quiet():
                x, y = getattr(a, h)(), a.in_units(*tgt)
            if list(x.units) != list(y.units) or max(rel(p, q) for p, q in zip(arr(x), arr(y))) > 0:
                ctx.fail("helper-differs-from-in_units:" + h, "%s form %s" % (h, form), case)
    # the one conversion that does not go through in_units: per-person values from a quantity in billion kcals / thousand tons (per month
    # or each month) and three ratios; with ratios of one it IS the conversion to kcals / grams / grams per person per day, and it is
    # linear in the ratios (kcals x kr, fat x kr x fr, protein x kr x pr)
    for form in ("per", "each"):
        a = mk(("billion kcals", "thousand tons", "thousand tons"), form, c)
        tgt = ("kcals per person per day", "grams per person per day", "grams per person per day")
        for kr, fr, pr in ((1.0, 1.0, 1.0), (2.0, 0.5, 3.0), (c["kcals"] / 1000.0, c["fat"] / 100.0, c["protein"] / 100.0)):
            ctx.count()
            with quiet():
                x, y = a.in_units_kcals_grams_grams_per_person_from_ratio(kr, fr, pr), a.in_units(*tgt)
            want = [arr(y)[0] * kr, arr(y)[1] * kr * fr, arr(y)[2] * kr * pr]
            # (labels as this method documents them: the per-person names, ' each month' for a series, nothing for a single month)
            lab = [u + (" each month" if form == "each" else "") for u in tgt]
            if list(x.units) != lab or max(rel(p, q) for p, q in zip(arr(x), want)) > 1e-12:
                ctx.fail("helper-differs-from-in_units:in_units_kcals_grams_grams_per_person_from_ratio",
                         "form %s ratios %r: got %r, in_units x ratios gives %r" % (form, (kr, fr, pr), [v.tolist() for v in arr(x)], [np.asarray(v).tolist() for v in want]), case)
    # unknown names are refused
    a = mk(("billion kcals", "thousand tons", "thousand tons"), "total", c)
    for bad in (("kcals", "thousand tons", "thousand tons"), ("billion kcals", "tons", "thousand tons"),
                ("billion kcals", "thousand tons", "Thousand tons"), ("billion kcals monthly", "thousand tons", "thousand tons")):
        ctx.count()
        try:
            with quiet():
                a.in_units(*bad)
        except AssertionError:
            continue
        ctx.fail("unknown-unit-name-accepted", repr(bad), case)


def shard(ctx):
    thorough = ctx.tier == "thorough"
    # every shard takes a slice of the 3 x 180 x 180 name pairs for each drawn setting
    stride = ctx.nshards

    def body(c):
        one_settings(ctx, c, pairs_stride=stride, offset=ctx.shard)
        ctx.event("container_" + c["container"])
        # every way of writing the numbers down, not only the drawn one (a sparser slice of the name pairs)
        for cont in ("ndarray_float", "list_float", "ndarray_int", "list_int"):
            if cont != c["container"]:
                one_settings(ctx, dict(c, container=cont), pairs_stride=stride * 12, offset=ctx.shard)
                ctx.event("container_" + cont)
        ctx.sample(dict(settings={k: c[k] for k in ("pop", "kcals", "fat", "protein")}, n=c["n"], values=c["vals"][:3]), limit=2)
    import hypothesis
    # all shards must draw the same settings so that together they cover every name pair: seed by ctx.seed only
    from hypothesis import given
    from vlib.harness import hyp_settings

    @hypothesis.seed(ctx.seed * 7919 + 13)
    @hyp_settings(40 if thorough else 8, shrink=False)
    @given(settings_case(), st.lists(st.tuples(st.floats(10, 200), st.floats(10, 200), st.booleans()), min_size=2, max_size=2))
    def run(c, followups):
        body(c)
        # the settings are process-wide and are changed between runs: re-establish them with only SOME of the four numbers changed
        # (same population and energy need, other fat / protein need; or only the population changed) and convert again
        hist = [c]
        for fat, protein, keep_pop in followups:
            c2 = dict(c, fat=fat, protein=protein)
            if not keep_pop:
                c2["pop"] = c["pop"] * 1.5
            one_settings(ctx, c2, pairs_stride=stride * 40, offset=ctx.shard, history=hist)
            hist = hist + [c2]
            ctx.event("settings_changed_partially")
    with collecting(ctx):
        run()


def replay(case, ctx):
    c = dict(case["settings"], vals=case["vals"], n=case["n"], container=case.get("container", "ndarray_float"))
    for h in case.get("history", []):
        # re-create the history of process-wide settings, converting once under each so that anything cached is cached
        hc = dict(h, vals=case["vals"], n=case["n"])
        apply_settings(hc)
        mk(("billion kcals", "thousand tons", "thousand tons"), "total", hc).in_units("percent people fed", "percent people fed", "percent people fed")
    apply_settings(c)
    if case["kind"] == "anchor":
        anchors_and_helpers(ctx, c, case["settings"])
        return
    ctx.count()
    a = mk(case["src"], case["form"], c)
    b = a.in_units(*case["dst"])
    base = case["form"].split("<-")[0]
    for f_, names in ((a, case["src"]), (b, case["dst"])):
        lab = [u + SUFFIX[base] for u in names]
        if [f_.kcals_units, f_.fat_units, f_.protein_units] != lab or list(f_.units) != lab:
            ctx.fail("conversion-changes-form-or-labels", "replay: %r" % (list(f_.units),), case)
    for i in range(3):
        f = RU.factor(case["src"][i], case["dst"][i], NUT[i], case["settings"])
        if rel(arr(b)[i], arr(a)[i] * f) > 1e-12:
            ctx.fail("conversion-factor-differs-from-dimensional-reference:%s->%s" % (case["src"][i], case["dst"][i]), "replay", case)
    back = b.in_units(*case["src"])
    if max(rel(x, y) for x, y in zip(arr(back), arr(a))) > 1e-11:
        ctx.fail("round-trip-not-identity", "replay", case)
