"""C13 — scenario options mean what they say and are applied exactly once."""
import copy
import os
import itertools

import numpy as np
from hypothesis import strategies as st
from hypothesis.stateful import RuleBasedStateMachine, rule, initialize, invariant, run_state_machine_as_test, precondition
import hypothesis

from vlib import model, herd, gen
from vlib.harness import drive, quiet, hyp_settings, Violation, collecting
from vlib.ref import ref_options as RO

PROPERTY = "C13"
RULE = ("(a) stateful machine over a Scenarios object: rules call the ~60 family setters with generated arguments in arbitrary order; "
        "a model tracks which exactly-once flags are set; after every step the constants are diffed against a deep snapshot; "
        "(b) flat properties over set_depending_on_option: every documented value of every family (incl. the values listed in "
        "scenarios/README.md), unknown strings, each required key removed, drawn override keys and values, every <species>_head "
        "override on drawn country rows (the stock row seen by the herd builder is captured), with a deep snapshot of the caller's "
        "dict; (c) thorough: all ordered pairs of setters and all 21 species x 164 rows.  Non-trivial = a step where a second setter "
        "of an already-set family is attempted, or an override on a species present in the drawn country / a value that differs "
        "from the family default; distinct by hash of the step sequence or input.")
ASSUMPTIONS = ["the per-setter table in vlib/ref/ref_options.py is a faithful transcription of the documented constants",
               "fat/protein 'required' are documented as unsupported: the loader must stop (SystemExit) before computing"]


# ---------------------------------------------------------------------------------------------
def fresh_loader(scale, row):
    from src.scenarios.scenarios import Scenarios
    s = Scenarios()
    with quiet():
        c = s.init_global_food_system_properties() if scale == "global" else s.init_country_food_system_properties(row)
    return s, c


def call_setter(s, name, spec, c, tc, row):
    f = getattr(s, name)
    a = spec["args"]
    with quiet():
        if a == "c":
            return f(c)
        if a == "c,row":
            return f(c, row)
        if a == "c,tc":
            return f(c, tc)
        if a == "tc":
            return f(tc)
    raise RuntimeError(a)


def flags_of(s):
    return {k: bool(getattr(s, k)) for k in RO.ALL_FLAGS}


def check_first_call(ctx, name, spec, before, after, row, c_before, case):
    changed = RO.diff_keys(before, after)
    bad = [k for k in changed if not RO.allowed(k, spec["writes"]) and not k.endswith(".__dict__")]
    if bad:
        ctx.fail("setter-changes-constants-outside-its-family", "%s changed %s" % (name, bad[:6]), case)
    for k, v in spec["values"].items():
        exp = v(row, c_before) if callable(v) else v
        if k not in after:
            ctx.fail("setter-does-not-set-documented-constant", "%s did not set %s" % (name, k), case)
        if not RO.close(after[k], exp):
            ctx.fail("setter-sets-undocumented-value", "%s set %s=%r, documented %r" % (name, k, after[k], exp), case)


def make_machine(ctx, rows):
    names = sorted(RO.SETTERS)

    class Machine(RuleBasedStateMachine):
        def __init__(self):
            super().__init__()
            self.steps = []
            self.s = None

        @initialize(scale=st.sampled_from(["country", "country", "global"]), iso=st.sampled_from(rows), nm=st.sampled_from(model.HORIZONS))
        def start(self, scale, iso, nm):
            self.scale = scale
            self.row = model.country_row(iso) if scale == "country" else None
            self.s, self.c = fresh_loader(scale, self.row)
            self.c["NMONTHS"] = nm
            self.tc = {}
            self.model = {k: False for k in RO.ALL_FLAGS}
            self.model["SCALE_SET"] = self.model["GENERIC_INITIALIZED_SET"] = True
            self.steps = [("init", scale, iso, nm)]
            self.repeat = False

        @rule(name=st.sampled_from(names))
        def setter(self, name):
            spec = RO.SETTERS[name]
            if spec["scale"] not in ("any", self.scale):
                return  # documented as applying to the other scale only; the dispatcher never does this
            if any(k not in self.c for k in spec["needs"]):
                return  # documented precondition (e.g. stored food before continued feed)
            self.steps.append(name)
            case = dict(kind="machine", steps=list(self.steps))
            before = RO.flatten(copy.deepcopy(self.c), copy.deepcopy(self.tc))
            c_before = copy.deepcopy(self.c)
            fl_before = flags_of(self.s)
            already = self.model[spec["flag"]]
            try:
                call_setter(self.s, name, spec, self.c, self.tc, self.row)
                raised = None
            except AssertionError as e:
                raised = e
            after = RO.flatten(self.c, self.tc)
            ctx.event("second_setter_of_family" if already else "first_setter_of_family")
            if already:
                self.repeat = True
                if raised is None:
                    ctx.fail("option-family-applied-twice", "%s accepted although %s was already set" % (name, spec["flag"]), case)
                ch = RO.diff_keys(before, after)
                if ch:
                    ctx.fail("rejected-setter-modified-constants", "%s (rejected) changed %s" % (name, ch[:6]), case)
                if flags_of(self.s) != fl_before:
                    ctx.fail("rejected-setter-modified-flags", name, case)
            else:
                if raised is not None:
                    ctx.fail("supported-setter-rejected", "%s raised %r on first use" % (name, raised), case)
                self.model[spec["flag"]] = True
                check_first_call(ctx, name, spec, before, after, self.row, c_before, case)
                fl = flags_of(self.s)
                exp = dict(fl_before)
                exp[spec["flag"]] = True
                if fl != exp:
                    ctx.fail("setter-sets-wrong-family-flag", "%s: flags %s" % (name, [k for k in fl if fl[k] != exp[k]]), case)

        @invariant()
        def flags_agree(self):
            if self.s is None:
                return
            if flags_of(self.s) != self.model:
                ctx.fail("family-flags-differ-from-history", str([k for k in self.model if self.model[k] != getattr(self.s, k)]),
                         dict(kind="machine", steps=list(self.steps)))
            try:
                self.s.check_all_set()
                ok = True
            except AssertionError:
                ok = False
            if ok != all(self.model.values()):
                ctx.fail("final-all-set-check-wrong", "check_all_set=%s but families set: %s" % (ok, self.model),
                         dict(kind="machine", steps=list(self.steps)))

        def teardown(self):
            if self.s is not None:
                ctx.count()
                if self.repeat and len(self.steps) >= 3:
                    ctx.nontrivial_case(self.steps)
                ctx.sample(dict(steps=self.steps[:12]), limit=2)

    return Machine


def replay_machine(ctx, steps):
    _, scale, iso, nm = steps[0]
    row = model.country_row(iso) if scale == "country" else None
    s, c = fresh_loader(scale, row)
    c["NMONTHS"] = nm
    tc = {}
    mdl = {k: False for k in RO.ALL_FLAGS}
    mdl["SCALE_SET"] = mdl["GENERIC_INITIALIZED_SET"] = True
    done = [steps[0]]
    for name in steps[1:]:
        spec = RO.SETTERS[name]
        done.append(name)
        case = dict(kind="machine", steps=list(done))
        before = RO.flatten(copy.deepcopy(c), copy.deepcopy(tc))
        c_before = copy.deepcopy(c)
        already = mdl[spec["flag"]]
        try:
            call_setter(s, name, spec, c, tc, row)
            raised = None
        except AssertionError as e:
            raised = e
        after = RO.flatten(c, tc)
        if already:
            if raised is None:
                ctx.fail("option-family-applied-twice", "%s accepted although %s was already set" % (name, spec["flag"]), case)
            if RO.diff_keys(before, after):
                ctx.fail("rejected-setter-modified-constants", name, case)
        else:
            if raised is not None:
                ctx.fail("supported-setter-rejected", "%s raised %r" % (name, raised), case)
            mdl[spec["flag"]] = True
            check_first_call(ctx, name, spec, before, after, row, c_before, case)
        if flags_of(s) != mdl:
            ctx.fail("family-flags-differ-from-history", name, case)


# ---------------------------------------------------------------------------------------------
def dispatch(iso, options):
    """(constants, time_consts, loader) via the public dispatcher, handing it the caller's dictionary itself (no protective copy)"""
    from src.scenarios.run_model_no_trade import ScenarioRunnerNoTrade
    with quiet():
        r = ScenarioRunnerNoTrade()
        if options.get("scale") == "global":
            return r.set_depending_on_option(options, country_data=None)
        return r.set_depending_on_option(options, country_data=model.country_row(iso, options))


def base_options(scale):
    if scale == "country":
        return dict(model.BASELINE_COUNTRY)
    return dict(model.BASELINE_COUNTRY, scale="global", seasonality="baseline_globally", waste="baseline_globally")


def readme_values():
    """{family: [values]} as documented in scenarios/README.md ('Allowed Values' section)"""
    import re
    txt = open("scenarios/README.md").read()
    out, fam = {}, None
    for line in txt.splitlines():
        m = re.match(r"\s*- \*\*(\w+)\*\*:", line)
        if m:
            fam = m.group(1)
            continue
        m = re.match(r"\s*- `(\w+)` - (.*)", line)
        if m and fam and fam not in ("settings", "simulations"):
            out.setdefault(fam, []).append((m.group(1), "Only applies to `global`" in m.group(2) or "global" == m.group(1)))
    return out


def check_value(ctx, iso, family, value, scale):
    o = base_options(scale)
    o[family] = value
    if family == "shutoff":
        pass
    case = dict(kind="value", iso3=iso, family=family, value=value, scale=scale)
    snap = copy.deepcopy(o)
    row = model.country_row(iso, o) if scale == "country" else None
    try:
        c, tc, loader = dispatch(iso, o)
    except AssertionError as e:
        ctx.fail("documented-option-value-rejected", "%s=%s (%s scale): %s" % (family, value, scale, str(e)[:80]), case)
        return
    if o != snap:
        ctx.fail("callers-option-dictionary-modified", "%s=%s" % (family, value), case)
    name = RO.DISPATCH[family][value]
    spec = RO.SETTERS[name]
    flat = RO.flatten(c, tc)
    cb = dict(c)
    for k, v in spec["values"].items():
        exp = v(row, cb) if callable(v) else v
        if k not in flat or not RO.close(flat[k], exp):
            # later families may legitimately overwrite shared keys in dispatcher order
            if family == "stored_food" and k == "STORE_FOOD_BETWEEN_YEARS":
                continue
            ctx.fail("option-value-sets-undocumented-constant", "%s=%s: %s is %r, documented %r" % (family, value, k, flat.get(k), exp), case)
    try:
        loader.check_all_set()
    except AssertionError:
        ctx.fail("dispatcher-leaves-a-family-unset", "%s=%s" % (family, value), case)
    # ... and nothing else: against the same dictionary with this family at its baseline value, only constants that one of the two
    # setters of this family is documented to write may differ
    base_value = base_options(scale).get(family)
    if value != base_value and base_value in RO.DISPATCH.get(family, {}):
        c0, tc0, _ = dispatch(iso, base_options(scale))
        allowed = list(spec["writes"]) + list(RO.SETTERS[RO.DISPATCH[family][base_value]]["writes"])
        stray = [k for k in RO.diff_keys(RO.flatten(c0, tc0), flat) if not RO.allowed(k, allowed) and not k.endswith(".__dict__")]
        if stray:
            ctx.fail("option-value-changes-constants-outside-its-family", "%s=%s instead of %s also changes %s" % (family, value, base_value, stray[:6]), case)
        ctx.event("value_differential")
    if value != base_options(scale).get(family):
        ctx.nontrivial_case(case)
    ctx.event("value_accepted")


def count_constructions():
    """wrap Parameters/Optimizer constructors to count how often computation was started"""
    from src.optimizer import parameters as pm, optimizer as om
    box = dict(n=0)
    op, oo = pm.Parameters.__init__, om.Optimizer.__init__

    def wp(self, *a, **k):
        box["n"] += 1
        return op(self, *a, **k)

    def wo(self, *a, **k):
        box["n"] += 1
        return oo(self, *a, **k)
    pm.Parameters.__init__, om.Optimizer.__init__ = wp, wo

    def undo():
        pm.Parameters.__init__, om.Optimizer.__init__ = op, oo
    return box, undo


def check_rejection(ctx, iso, options, what, case):
    """the public runner must reject `options` with the documented error before any computation starts"""
    from src.scenarios.run_model_no_trade import ScenarioRunnerNoTrade
    snap = copy.deepcopy(options)
    box, undo = count_constructions()
    try:
        with quiet():
            ScenarioRunnerNoTrade().run_model_no_trade(title="c13", create_pptx_with_all_countries=False, show_country_figures=False,
                                                        show_map_figures=False, add_map_slide_to_pptx=False, scenario_option=options,
                                                        countries_list=[iso], return_results=True)
        outcome = "accepted"
    except AssertionError:
        outcome = "rejected"
    except SystemExit:
        outcome = "exit"
    except Exception as e:
        outcome = "error:" + type(e).__name__
    finally:
        undo()
    ctx.event("rejection_" + outcome)
    if outcome == "accepted" or outcome.startswith("error"):
        ctx.fail("invalid-options-not-rejected-cleanly", "%s -> %s" % (what, outcome), case)
    if box["n"] != 0:
        ctx.fail("invalid-options-rejected-after-computation-started", "%s: %d Parameters/Optimizer objects built" % (what, box["n"]), case)
    if options != snap:
        ctx.fail("callers-option-dictionary-modified", what, case)
    ctx.nontrivial_case(case)


@st.composite
def bad_case(draw):
    iso = draw(gen.country())
    o = draw(gen.options("country"))
    kind = draw(st.sampled_from(["unknown", "missing", "required"]))
    fam = draw(st.sampled_from(RO.REQUIRED_KEYS))
    if kind == "unknown":
        val = draw(st.sampled_from(["", "Baseline", "none", "true", "zero ", "baseline_", "efficient_meat_strategy", "no_stored_food_between_years"])
                   | st.text(alphabet="abcdefghijklmnopqrstuvwxyz_", min_size=1, max_size=12))
        legal = set(model.COUNTRY_FAMILIES.get(fam, [])) | set(model.GLOBAL_FAMILIES.get(fam, [])) | {"country", "global", "required", "not_required"}
        if val in legal:
            val = val + "_x"
        o[fam] = val
    elif kind == "missing":
        del o[fam]
    else:
        fam = draw(st.sampled_from(["fat", "protein"]))
        o[fam] = "required"
    return dict(kind="bad", iso3=iso, options=o, how=kind, family=fam)


OVERRIDES = ["MINIMUM_PERCENT_FED_BEFORE_NONHUMAN_CONSUMPTION_ALLOWED", "RATIO_STOCKS_UNTOUCHED", "CROP_PRODUCTION_MULTIPLIER",
             "GRASSES_PRODUCTION_MULTIPLIER", "kg_meat_per_large_animal"]


@st.composite
def override_case(draw):
    iso = draw(gen.country())
    o = draw(gen.options("country"))
    key = draw(st.sampled_from(OVERRIDES + ["head"]))
    if key == "head":
        sp = draw(st.sampled_from(herd.SPECIES))
        return dict(kind="override", iso3=iso, options=o, key=sp + "_head", value=draw(st.integers(1, 10**8)))
    if key == "MINIMUM_PERCENT_FED_BEFORE_NONHUMAN_CONSUMPTION_ALLOWED":
        v = draw(st.sampled_from([0.0, 10.0, 100.0]) | st.floats(0, 100))
    elif key == "RATIO_STOCKS_UNTOUCHED":
        v = draw(st.sampled_from([0.0, 1.0]) | st.floats(0, 1))
    elif key == "kg_meat_per_large_animal":
        v = draw(st.sampled_from([0.0]) | st.floats(0, 600))
    else:
        v = draw(st.sampled_from([0.0, 1.0, 10.0]) | st.floats(0, 10))
    return dict(kind="override", iso3=iso, options=o, key=key, value=v)


def expected_override_effect(key, value, base_flat):
    """{dotted key: expected value} that may differ from the run without the override"""
    if key.endswith("_head"):
        return {key + "_start": int(value)}
    if key == "kg_meat_per_large_animal":
        return {key: float(value)}
    if key in ("MINIMUM_PERCENT_FED_BEFORE_NONHUMAN_CONSUMPTION_ALLOWED", "RATIO_STOCKS_UNTOUCHED"):
        return {key: float(value)}
    pre = "RATIO_CROPS_YEAR" if key == "CROP_PRODUCTION_MULTIPLIER" else "RATIO_GRASSES_YEAR"
    return {k: base_flat[k] * float(value) for k in base_flat if k.startswith(pre)}


def check_override(ctx, c):
    iso, o, key, value = c["iso3"], c["options"], c["key"], c["value"]
    try:
        base_c, base_tc, _ = dispatch(iso, o)
    except (AssertionError, SystemExit):
        ctx.abort("base_rejected")
        return
    o2 = dict(o)
    o2[key] = value
    snap = copy.deepcopy(o2)
    c2, tc2, _ = dispatch(iso, o2)
    if o2 != snap:
        ctx.fail("callers-option-dictionary-modified", key, c)
    bf, af = RO.flatten(base_c, base_tc), RO.flatten(c2, tc2)
    exp = expected_override_effect(key, value, bf)
    changed = set(RO.diff_keys(bf, af))
    extra = sorted(changed - set(exp))
    if extra:
        ctx.fail("override-changes-something-it-does-not-name", "%s=%r also changed %s" % (key, value, extra[:6]), c)
    for k, v in exp.items():
        if k not in af or not RO.close(af[k], v, 1e-12):
            ctx.fail("override-not-applied-to-the-input-it-names", "%s=%r: %s is %r, expected %r" % (key, value, k, af.get(k), v), c)
    ctx.event("override_" + ("head" if key.endswith("_head") else key))
    if changed:
        ctx.nontrivial_case(c)
    ctx.sample(dict(iso3=iso, key=key, value=value, changed=sorted(changed)[:4]), limit=2)
    if key.endswith("_head"):
        check_head_reaches_herd(ctx, iso, key, int(value), c)


def capture_stock_row(code, constants_inputs):
    """the stock row AnimalModelBuilder.create_animal_objects sees"""
    from src.food_system import animal_populations as ap
    box = {}
    orig = ap.AnimalModelBuilder.create_animal_objects

    def w(row, attrs):
        box["row"] = row.copy()
        return orig(row, attrs)
    ap.AnimalModelBuilder.create_animal_objects = w
    try:
        herd.ensure_conversions()
        with quiet():
            try:
                ap.main(code, herd.mkfood([0.0]), herd.mkfood([0.0]), "baseline", constants_inputs, 0, herd.kcals_dict())
            except AssertionError:
                # the herd model may refuse an overridden herd later on (e.g. dairy transfers larger than the meat herd);
                # the stock row has been captured by then
                if "row" not in box:
                    raise
    finally:
        ap.AnimalModelBuilder.create_animal_objects = orig
    return box["row"]


def check_head_reaches_herd(ctx, iso, key, value, case):
    base = capture_stock_row(iso, {"NMONTHS": 1})
    if base[key] == value:
        value += 1
    got = capture_stock_row(iso, {key + "_start": value, "NMONTHS": 1})
    diff = [k for k in set(base.index) | set(got.index)
            if k not in base.index or k not in got.index or not RO.same(base[k], got[k])]
    ctx.event("head_species_present" if base[key] > 0 else "head_species_absent")
    # an override belongs to one run: the next run without it must see the shipped table again
    import pandas as pd
    shipped = pd.read_csv("data/no_food_trade/animal_feed_data/FAOSTAT_head_and_slaughter.csv", index_col="iso3").loc["SWZ" if iso == "SWT" else iso]
    after = capture_stock_row(iso, {"NMONTHS": 1})
    for label, row in (("before", base), ("after", after)):
        stale = [k for k in shipped.index if not RO.same(shipped[k], row[k])]
        if stale:
            ctx.fail("head-count-override-outlives-its-run",
                     "%s: a run without overrides (%s the %s override) sees %s = %r, shipped table has %r" %
                     (iso, label, key, stale[0], row[stale[0]], shipped[stale[0]]), case)
    if sorted(diff) != [key] or got[key] != value:
        ctx.fail("head-count-override-does-not-reach-the-herd-model-exactly",
                 "%s %s_start=%d: stock row differs in %s (herd sees %s=%r)" % (iso, key, value, sorted(diff)[:5], key, got.get(key)), case)
    ctx.nontrivial_case(dict(iso3=iso, key=key, value=value))


@st.composite
def multi_override_case(draw):
    """two to four different numeric overrides in one scenario (in a drawn order), on a drawn option dictionary"""
    keys = draw(st.lists(st.sampled_from(OVERRIDES), min_size=2, max_size=4, unique=True))
    # ... with none to three head-count overrides among them; the whole list is then written in a drawn order (the order of a scenario
    # file's keys is the caller's choice: a head count may come before or after the carcass weight, a multiplier before or after both)
    heads = draw(st.lists(st.sampled_from(herd.SPECIES), min_size=0, max_size=3, unique=True))
    keys = list(draw(st.permutations(keys + [sp + "_head" for sp in heads])))
    vals = {}
    for key in keys:
        if key.endswith("_head"):
            vals[key] = draw(st.integers(1, 10**8))
        elif key == "MINIMUM_PERCENT_FED_BEFORE_NONHUMAN_CONSUMPTION_ALLOWED":
            vals[key] = draw(st.sampled_from([0.0, 10.0, 100.0]) | st.floats(0, 100))
        elif key == "RATIO_STOCKS_UNTOUCHED":
            vals[key] = draw(st.sampled_from([0.0, 1.0]) | st.floats(0, 1))
        elif key == "kg_meat_per_large_animal":
            vals[key] = draw(st.floats(0, 600))
        else:
            vals[key] = draw(st.sampled_from([0.5, 2.0, 0.0]) | st.floats(0, 10))
    scale = draw(st.sampled_from(["country", "country", "global"]))
    return dict(kind="overrides", iso3=draw(gen.country()) if scale == "country" else "WOR", options=draw(gen.options(scale)),
                keys=keys, values=[vals[k] for k in keys])


def check_overrides_together(ctx, c):
    """each override changes exactly the input it names - also when several are given at once"""
    iso, o = c["iso3"], c["options"]
    try:
        base_c, base_tc, _ = dispatch(iso, o)
    except (AssertionError, SystemExit):
        ctx.abort("base_rejected")
        return
    o2 = dict(o)
    for k, v in zip(c["keys"], c["values"]):
        o2[k] = v
    try:
        c2, tc2, _ = dispatch(iso, o2)
    except (AssertionError, SystemExit):
        ctx.abort("overrides_rejected_together")       # e.g. a share to use below the share left untouched
        return
    bf, af = RO.flatten(base_c, base_tc), RO.flatten(c2, tc2)
    exp = {}
    for k, v in zip(c["keys"], c["values"]):
        exp.update(expected_override_effect(k, v, bf))
    extra = sorted(set(RO.diff_keys(bf, af)) - set(exp))
    if extra:
        ctx.fail("override-changes-something-it-does-not-name", "%r together also changed %s" % (list(zip(c["keys"], c["values"])), extra[:6]), c)
    for k, v in exp.items():
        if k not in af or not RO.close(af[k], v, 1e-12):
            ctx.fail("override-not-applied-to-the-input-it-names",
                     "%r together: %s is %r, expected %r" % (list(zip(c["keys"], c["values"])), k, af.get(k), v), c)
    ctx.event("overrides_%d_together" % len(c["keys"]))
    ctx.nontrivial_case(c)


def stray_keys():
    """keys a scenario file may carry besides the families the loader reads: names the two scenario READMEs list as `**key**` / `key`
    that are not (or no longer) option families - e.g. the old name `buffer` of ratio_stocks_untouched - plus bookkeeping keys"""
    import re
    known = set(model.COUNTRY_FAMILIES) | set(model.FIXED) | {"scale", "NMONTHS"}
    out = {"title", "comment", "buffer"}
    for fn in (os.path.join("scenarios", "README.md"), os.path.join("src", "scenarios", "README.md")):
        if os.path.exists(fn):
            for m in re.finditer(r"(?:\*\*|`)([a-z_]{3,40})(?:\*\*|`)\s*(?::| sets )", open(fn, encoding="utf-8").read()):
                if m.group(1) not in known:
                    out.add(m.group(1))
    return sorted(out)


@st.composite
def stray_case(draw):
    """a drawn option dictionary plus one or two keys the loader does not read, holding values that are valid for SOME family"""
    scale = draw(st.sampled_from(["country", "country", "global"]))
    fam = model.COUNTRY_FAMILIES if scale == "country" else model.GLOBAL_FAMILIES
    allv = sorted({v for vs in fam.values() for v in vs})
    keys = draw(st.lists(st.sampled_from(stray_keys()), min_size=1, max_size=2, unique=True))
    # the old name of a family gets values of that family now and then (that is what a user following the README would write)
    vals = [draw(st.sampled_from(fam["ratio_stocks_untouched"]) if k == "buffer" and draw(st.booleans()) else st.sampled_from(allv)) for k in keys]
    return dict(kind="stray", iso3=draw(gen.country()) if scale == "country" else "WOR", options=draw(gen.options(scale)), keys=keys, values=vals)


def check_stray(ctx, c):
    """every documented option sets exactly the constants its documentation describes - whatever else the dictionary carries"""
    iso, o = c["iso3"], c["options"]
    try:
        base_c, base_tc, _ = dispatch(iso, dict(o))
    except (AssertionError, SystemExit):
        ctx.abort("base_rejected")
        return
    o2 = dict(o)
    for k, v in zip(c["keys"], c["values"]):
        o2[k] = v
    try:
        c2, tc2, _ = dispatch(iso, o2)
    except (AssertionError, SystemExit):
        ctx.event("stray_key_rejected")          # refusing a key it does not know is fine; silently obeying it is not
        return
    changed = sorted(RO.diff_keys(RO.flatten(base_c, base_tc), RO.flatten(c2, tc2)))
    ctx.event("stray_key_" + c["keys"][0])
    if changed:
        ctx.fail("key-the-loader-does-not-document-changes-the-constants",
                 "%s: adding %r changed %s" % (iso, list(zip(c["keys"], c["values"])), changed[:6]), c)
    ctx.nontrivial_case(c)


@st.composite
def multi_head_case(draw):
    k = draw(st.integers(2, 5))
    sps = draw(st.lists(st.sampled_from(herd.SPECIES), min_size=k, max_size=k, unique=True))     # in the order the user writes them
    return dict(kind="heads", iso3=draw(gen.country()), keys=[sp + "_head" for sp in sps],
                values=draw(st.lists(st.integers(1, 10**8), min_size=k, max_size=k, unique=True)))


def check_heads_reach_herd(ctx, c):
    """several head-count overrides in one scenario, in any order: each changes exactly the species it names"""
    iso = c["iso3"]
    base = capture_stock_row(iso, {"NMONTHS": 1})
    want = {k: (v + 1 if base[k] == v else v) for k, v in zip(c["keys"], c["values"])}
    ci = {"NMONTHS": 1}
    for k in c["keys"]:                      # insertion order = the order drawn
        ci[k + "_start"] = want[k]
    got = capture_stock_row(iso, ci)
    diff = sorted(k for k in set(base.index) | set(got.index) if k not in base.index or k not in got.index or not RO.same(base[k], got[k]))
    wrong = [k for k in c["keys"] if got.get(k) != want[k]]
    ctx.event("head_overrides_%d_at_once" % len(c["keys"]))
    if wrong or diff != sorted(c["keys"]):
        ctx.fail("head-count-override-does-not-reach-the-herd-model-exactly",
                 "%s %r: herd sees %r; stock row differs from the shipped one in %s" %
                 (iso, [(k, want[k]) for k in c["keys"]], [(k, got.get(k)) for k in c["keys"]], diff[:6]), c)
    ctx.nontrivial_case(c)


# ---------------------------------------------------------------------------------------------
def shard(ctx):
    thorough = ctx.tier == "thorough"
    rows = model.iso3_list()
    M = make_machine(ctx, rows)
    seed = (ctx.seed * 1000 + ctx.shard) * 7 + 3
    with collecting(ctx):
        run_state_machine_as_test(hypothesis.seed(seed)(M), settings=hyp_settings(6000 if thorough else 150, shrink=True, stateful_steps=40))

    # documented values (dispatcher table + README), each on a drawn country and on the world
    docs = readme_values()
    jobs = []
    for fam, vals in sorted(RO.DISPATCH.items()):
        for v in sorted(vals):
            spec = RO.SETTERS[vals[v]]
            for scale in ("country", "global"):
                if spec["scale"] in ("any", scale):
                    jobs.append((fam, v, scale))
    for fam, vals in sorted(docs.items()):
        if fam not in RO.DISPATCH:
            continue
        for v, global_only in vals:
            if v in ("required",):
                continue
            if v not in RO.DISPATCH[fam]:
                jobs.append((fam, v, "global" if global_only else "country"))   # documented but unknown to the table: must still be accepted
    for i, (fam, v, scale) in enumerate(jobs):
        if i % ctx.nshards != ctx.shard:
            continue
        ctx.count()
        iso = rows[(i * 7 + ctx.seed) % len(rows)]
        try:
            if v in RO.DISPATCH[fam]:
                check_value(ctx, iso, fam, v, scale)
            else:
                o = base_options(scale)
                o[fam] = v
                try:
                    dispatch(iso, o)
                    ctx.event("value_accepted")
                except AssertionError as e:
                    ctx.fail("documented-option-value-rejected", "%s=%s documented in scenarios/README.md: %s" % (fam, v, str(e)[:80]),
                             dict(kind="value", iso3=iso, family=fam, value=v, scale=scale))
        except Violation as viol:
            ctx.record_violation(viol)

    # the dispatcher rewrites a few known-bad (country, option) combinations on a private copy: the caller's dictionary must survive
    rewrites = [("SLV", dict(scenario="seaweed", shutoff="continued", cull="do_eat_culled")),
                ("ALB", dict(scenario="all_resilient_foods", shutoff="short_delayed_shutoff", cull="do_eat_culled")),
                ("ECU", dict(scenario="greenhouse", crop_disruption="zero", meat_strategy="feed_only_ruminants", ratio_stocks_untouched="zero",
                             cull="do_eat_culled", shutoff="long_delayed_shutoff"))]
    for i, (iso, ov) in enumerate(rewrites):
        if i % ctx.nshards != ctx.shard:
            continue
        ctx.count()
        o = dict(model.BASELINE_COUNTRY, **ov)
        snap = copy.deepcopy(o)
        try:
            c1, _, _ = dispatch(iso, o)
            if o != snap:
                ctx.fail("callers-option-dictionary-modified", "%s: %s" % (iso, {k: (snap[k], o[k]) for k in o if o[k] != snap[k]}),
                         dict(kind="rewrite", iso3=iso, options=snap))
            ctx.event("known_bad_rewrite_applied" if c1["DELAY"]["FEED_SHUTOFF_MONTHS"] == 0 else "known_bad_rewrite_not_applied")
            ctx.nontrivial_case(["rewrite", iso])
        except Violation as viol:
            ctx.record_violation(viol)

    # ... and ONLY those: for the three rule countries every shut-off schedule under every seaweed-bearing scenario must yield the
    # constants documented for the schedule that was asked for, unless the (scenario, schedule) pair is one a rule lists (then: immediate)
    listed = {(iso, scen, sh) for iso in ("SLV", "ALB") for scen in ("all_resilient_foods", "seaweed")
              for sh in ("continued", "long_delayed_shutoff", "short_delayed_shutoff")}
    grid = [(iso, scen, sh) for iso in ("SLV", "ALB", "ECU") for scen in ("seaweed", "all_resilient_foods", "all_resilient_foods_and_more_area")
            for sh in sorted(RO.DISPATCH["shutoff"])]
    for i, (iso, scen, sh) in enumerate(grid):
        if i % ctx.nshards != ctx.shard:
            continue
        ctx.count()
        o = dict(model.BASELINE_COUNTRY, scenario=scen, shutoff=sh, cull="do_eat_culled")
        case = dict(kind="rewrite_grid", iso3=iso, options=o)
        try:
            c1, tc1, _ = dispatch(iso, o)
            want = "immediate" if (iso, scen, sh) in listed else sh
            spec = RO.SETTERS[RO.DISPATCH["shutoff"][want]]
            flat = RO.flatten(c1, tc1)
            row = model.country_row(iso, o)
            for k, v in spec["values"].items():
                exp = v(row, dict(c1)) if callable(v) else v
                if k not in flat or not RO.close(flat[k], exp):
                    ctx.fail("known-bad-rewrite-applied-outside-its-listed-combinations" if want == sh else "known-bad-rewrite-not-applied",
                             "%s scenario=%s shutoff=%s: %s is %r, the schedule '%s' documents %r" % (iso, scen, sh, k, flat.get(k), want, exp), case)
            ctx.event("rewrite_grid_" + ("listed" if want != sh else "unlisted"))
            ctx.nontrivial_case(["rewrite_grid", iso, scen, sh])
        except Violation as viol:
            ctx.record_violation(viol)

    drive(ctx, bad_case(), lambda c: check_rejection(ctx, c["iso3"], c["options"], "%s %s=%r" % (c["how"], c["family"], c["options"].get(c["family"])), c),
          400 if thorough else 30, shrink=False, tag="bad")
    drive(ctx, override_case(), lambda c: check_override(ctx, c), 1500 if thorough else 80, shrink=False, tag="override")
    drive(ctx, multi_head_case(), lambda c: check_heads_reach_herd(ctx, c), 600 if thorough else 30, tag="heads")
    drive(ctx, stray_case(), lambda c: check_stray(ctx, c), 1000 if thorough else 40, shrink=False, tag="stray")
    drive(ctx, multi_override_case(), lambda c: check_overrides_together(ctx, c), 1500 if thorough else 70, tag="overrides")

    if thorough:
        # all ordered pairs of setters (finite, enumerated)
        names = sorted(RO.SETTERS)
        pairs = list(itertools.product(names, names))
        for i, (a, b) in enumerate(pairs):
            if i % ctx.nshards != ctx.shard:
                continue
            for scale in ("country", "global"):
                sa, sb = RO.SETTERS[a], RO.SETTERS[b]
                if sa["scale"] not in ("any", scale) or sb["scale"] not in ("any", scale):
                    continue
                pre = ["set_baseline_stored_food"] if ("STORE_FOOD_BETWEEN_YEARS" in sa["needs"] + sb["needs"] and
                                                      a != "set_baseline_stored_food" and b != "set_baseline_stored_food" and
                                                      sa["flag"] != "STORED_FOOD_SET" and sb["flag"] != "STORED_FOOD_SET") else []
                if ("STORE_FOOD_BETWEEN_YEARS" in sa["needs"] + sb["needs"]) and not pre:
                    continue
                ctx.count()
                try:
                    replay_machine(ctx, [("init", scale, "ARG", 120)] + pre + [a, b])
                    ctx.nontrivial_case(["pair", scale, a, b]) if sa["flag"] == sb["flag"] else None
                except Violation as viol:
                    ctx.record_violation(viol)
        # every species head-count override on every country row
        for i, iso in enumerate(rows):
            if i % ctx.nshards != ctx.shard:
                continue
            for sp in herd.SPECIES:
                ctx.count()
                try:
                    check_head_reaches_herd(ctx, iso, sp + "_head", 12345, dict(kind="head", iso3=iso, key=sp + "_head", value=12345))
                except Violation as viol:
                    ctx.record_violation(viol)


def replay(case, ctx):
    ctx.count()
    k = case["kind"]
    if k == "machine":
        replay_machine(ctx, [tuple(s) if isinstance(s, list) else s for s in case["steps"]])
    elif k == "value":
        check_value(ctx, case["iso3"], case["family"], case["value"], case["scale"])
    elif k == "bad":
        check_rejection(ctx, case["iso3"], case["options"], case["how"], case)
    elif k == "override":
        check_override(ctx, case)
    elif k == "rewrite":
        o = copy.deepcopy(case["options"])
        dispatch(case["iso3"], o)
        if o != case["options"]:
            ctx.fail("callers-option-dictionary-modified", case["iso3"], case)
    elif k == "head":
        check_head_reaches_herd(ctx, case["iso3"], case["key"], case["value"], case)
    elif k == "heads":
        check_heads_reach_herd(ctx, case)
    elif k == "overrides":
        check_overrides_together(ctx, case)
    elif k == "stray":
        check_stray(ctx, case)
    elif k == "rewrite_grid":
        c1, tc1, _ = dispatch(case["iso3"], copy.deepcopy(case["options"]))
        o = case["options"]
        listed = (case["iso3"] in ("SLV", "ALB") and o["scenario"] in ("all_resilient_foods", "seaweed")
                  and o["shutoff"] in ("continued", "long_delayed_shutoff", "short_delayed_shutoff"))
        want = "immediate" if listed else o["shutoff"]
        spec, flat, row = RO.SETTERS[RO.DISPATCH["shutoff"][want]], RO.flatten(c1, tc1), model.country_row(case["iso3"], o)
        for kk, v in spec["values"].items():
            exp = v(row, dict(c1)) if callable(v) else v
            if kk not in flat or not RO.close(flat[kk], exp):
                ctx.fail("known-bad-rewrite-applied-outside-its-listed-combinations" if want == o["shutoff"] else "known-bad-rewrite-not-applied",
                         "%s: %s is %r, documented %r" % (case["iso3"], kk, flat.get(kk), exp), case)
    else:
        raise RuntimeError(k)
