"""C07 — herd feeding accounts for energy and starvation consistently."""
import numpy as np
from hypothesis import strategies as st

from vlib import herd, model, gen
from vlib.harness import drive, quiet

PROPERTY = "C07"
RULE = ("(a) AnimalSpecies.feed_the_species on generated herds (size 0..1e9, LSU, regional factor, ruminant or not) with grass and "
        "feed drawn as multiples of the requirement (0, (0,1/2), 1/2, (1/2,1), 1, >1) against a reference greedy allocator; "
        "(b) animal_populations.main on drawn (country|world, strategy, horizon 12..120, monthly feed and grass patterns from zero to "
        "10x the herds' requirement) with every monthly feeding observed: the reference allocator is replayed on the real species "
        "list, the priority order is recomputed from the species attributes, and the returned starving / feed_used / grass_used "
        "lists are audited.  Non-trivial = some species receives strictly between 0 and 100 % of its requirement; distinct by hash "
        "of the generated input.")
ASSUMPTIONS = ["energy tolerance 1e-9 relative; animals counted as fed are whole numbers (the code rounds), so |fed - herd*delivered/required| <= 0.5",
               "digestion efficiencies 0.6 (grass) / 0.8 (feed) as documented"]
TOL = 1e-9


def ref_feed(herd_n, need_per_head, ruminant, grass, feed, eg=0.6, ef=0.8):
    """reference allocator for one species: grass first (ruminants only), then feed"""
    req = herd_n * need_per_head
    if req == 0:
        return grass, feed, 0.0, req
    g_used = 0.0
    delivered = 0.0
    if ruminant:
        g_used = min(grass, req / eg)
        delivered = g_used * eg
    f_used = min(feed, max(0.0, req - delivered) / ef)
    delivered += f_used * ef
    return grass - g_used, feed - f_used, min(delivered, req) if delivered >= req * (1 - 1e-12) else delivered, req


def judge_species(ctx, what, herd_n, fed, owed, delivered, req, case, scale=0.0):
    """fed <= herd; == herd when satisfied; else herd x delivered/required (rounded); starving >= 0"""
    if req == 0:
        if fed > herd_n + 1e-9 * max(1, herd_n):
            ctx.fail("fed-exceeds-herd-(stale-count-when-nothing-required)", "%s: herd %.6g but %.6g counted fed" % (what, herd_n, fed), case)
        # a requirement of nothing is met: the whole (possibly empty) herd counts as fed
        if abs(fed - herd_n) > 1e-9 * max(1, herd_n):
            ctx.fail("nothing-required-but-fed-differs-from-herd", "%s: herd %.6g, %.6g counted fed" % (what, herd_n, fed), case)
        return
    # quantities below 1e-9 of the month's supply are arithmetic noise (herds decay geometrically, never to exactly 0):
    # inside that band the species may be judged satisfied or not
    atol = TOL * max(req, scale)
    gray = abs(req - delivered) <= atol
    ratio = min(1.0, delivered / req)
    met = delivered >= req - atol
    cls = "0" if ratio == 0 else "(0,1/2)" if ratio < 0.5 else "[1/2,1)" if not met else "1"
    ctx.event("delivered/required " + cls)
    if 0 < ratio and not met:
        ctx.nontrivial_case(case)
    if fed > herd_n + 1e-9 * max(1, herd_n) or herd_n - fed < -1e-9 * max(1, herd_n):
        ctx.fail("fed-exceeds-herd",
                 "%s: herd %.6g, delivered %.4g of required %.4g (%.1f %%) but %.6g animals counted fed, starving %.6g" %
                 (what, herd_n, delivered, req, 100 * ratio, fed, herd_n - fed), case)
    ok_met = abs(fed - herd_n) <= 1e-9 * max(1, herd_n) and abs(owed) <= atol
    ok_part = abs(fed - herd_n * ratio) <= 0.5 + 1e-9 * max(1, herd_n) and abs(owed - (req - delivered)) <= atol
    if met and not gray and not ok_met:
        ctx.fail("requirement-met-but-fed-differs-from-herd-or-energy-still-owed",
                 "%s: herd %.6g fed %.6g owed %.6g" % (what, herd_n, fed, owed), case)
    if gray and not (ok_met or ok_part):
        ctx.fail("fed-not-herd-times-delivered-fraction", "%s (boundary): herd %.6g fed %.6g owed %.6g" % (what, herd_n, fed, owed), case)
    if not met and not ok_part:
        ctx.fail("fed-not-herd-times-delivered-fraction",
                 "%s: herd %.6g x %.6f delivered = %.6g expected fed, got %.6g; owed %.6g expected %.6g" %
                 (what, herd_n, ratio, herd_n * ratio, fed, owed, req - delivered), case)


@st.composite
def unit_case(draw):
    mult = st.sampled_from([0.0, 0.5, 1.0]) | st.floats(0, 0.5) | st.floats(0.5, 1.0) | st.floats(1.0, 3.0)
    return dict(pop=draw(st.integers(0, 10**9) | st.floats(0, 1e9) | st.sampled_from([0, 1, 2, 100])),
                lsu=draw(st.floats(0.005, 1.1)), factor=draw(st.floats(0.3, 1.6)),
                ruminant=draw(st.booleans()), digestion=draw(st.sampled_from(["ruminant", "monogastric", "hindgut fermenter"])),
                g=draw(mult), f=draw(mult))


def run_unit(ctx, c):
    from src.food_system.animal_populations import AnimalSpecies
    from src.food_system.food import Food
    herd.ensure_conversions()
    a = AnimalSpecies("meat_cattle", "cattle")
    a.set_animal_attributes(population=c["pop"], slaughter=0, animal_function="meat", livestock_unit=c["lsu"],
                            digestion_type=c["digestion"], animal_size="large", approximate_feed_conversion=8)
    a.LSU_factor = c["factor"]
    a.reset_NE_balance()
    need = a.net_energy_required_per_month()
    req = need * c["pop"]
    grass = c["g"] * req / 0.6
    feed = c["f"] * req / 0.8
    gi, fi = Food(grass, 0, 0), Food(feed, 0, 0)
    with quiet():
        go, fo = a.feed_the_species(gi, fi, is_ruminant=c["ruminant"])
    eg, ef, delivered, req2 = ref_feed(c["pop"], need, c["ruminant"], grass, feed)
    case = dict(kind="unit", **c)
    ctx.sample(dict(case=case, fed=a.population_fed, herd=c["pop"]), limit=2)
    scale = max(grass, feed, 1e-300)
    if abs(go.kcals - eg) > TOL * scale or abs(fo.kcals - ef) > TOL * scale:
        ctx.fail("leftover-feed-or-grass-differs-from-greedy-allocation",
                 "grass left %.6g (expected %.6g), feed left %.6g (expected %.6g)" % (go.kcals, eg, fo.kcals, ef), case)
    if not c["ruminant"] and abs(go.kcals - grass) > 0:
        ctx.fail("grass-given-to-non-ruminant", "grass %.6g -> %.6g" % (grass, go.kcals), case)
    if go.kcals < -TOL * scale or fo.kcals < -TOL * scale:
        ctx.fail("more-used-than-supplied", "leftovers %.6g %.6g" % (go.kcals, fo.kcals), case)
    judge_species(ctx, "unit", float(c["pop"]), float(a.population_fed), float(a.NE_balance.kcals), delivered, req, case)


PATTERNS = ["zero", "const", "const", "step_down", "step_up", "spike", "noise"]


@st.composite
def series_mult(draw, n):
    kind = draw(st.sampled_from(PATTERNS))
    level = draw(st.sampled_from([0.1, 0.25, 0.5, 0.75, 1.0, 2.0, 10.0]) | st.floats(0, 3))
    if kind == "zero":
        return [0.0] * n
    if kind == "const":
        return [level] * n
    k = draw(st.integers(0, n - 1))
    if kind == "step_down":
        return [level] * k + [0.0] * (n - k)
    if kind == "step_up":
        return [0.0] * k + [level] * (n - k)
    if kind == "spike":
        v = [draw(st.sampled_from([0.0, 0.3]))] * n
        v[k] = level * 5
        return v
    return draw(st.lists(st.floats(0, 3), min_size=n, max_size=n))


@st.composite
def herd_case(draw, codes):
    n = draw(st.sampled_from([12, 24, 36, 48, 60, 84, 120]) | st.integers(12, 120))
    c = dict(code=draw(st.sampled_from(codes)), strategy=draw(st.sampled_from(herd.STRATEGIES)), n=n,
             feed_mult=draw(series_mult(n)), grass_mult=draw(series_mult(n)))
    # starting head counts can be overridden per species (documented numeric override): now and then 1-3 of them, incl. an emptied herd
    if draw(st.integers(0, 3)) == 0:
        k = draw(st.integers(1, 3))
        sps = draw(st.lists(st.sampled_from(herd.SPECIES), min_size=k, max_size=k, unique=True))
        c["heads"] = {sp + "_head_start": draw(st.sampled_from([0, 1, 1000, 10**6, 10**8])) for sp in sps}
    return c


def priority_key(sp, kd, hours):
    t, size = sp["type"], sp["size"]
    if t == "chicken":
        k = kd["KCALS_PER_CHICKEN"]
    elif t == "pig":
        k = kd["KCALS_PER_PIG"]
    else:
        k = kd["KCALS_PER_%s_ANIMAL" % size.upper()]
    return (k + sp["need_per_head"] / sp["eff_feed"]) / hours


def run_herd(ctx, c):
    req = herd.requirement(c["code"], c["strategy"])
    feed = [m * req for m in c["feed_mult"]]
    grass = [m * req for m in c["grass_mult"]]
    kd = herd.kcals_dict()
    try:
        animals, fu, gu, log = herd.run_main(c["code"], feed, grass, c["strategy"], c.get("heads"), kd, log=True)
    except (AssertionError, ValueError):
        if c.get("heads"):          # the herd model may refuse an overridden stock row (dairy transfers larger than the meat herd; no animal left at all)
            ctx.abort("herd-model-refuses-overridden-heads")
            return
        raise
    case = dict(kind="herd", **c)
    ctx.event("strategy " + c["strategy"])
    ctx.sample(dict(code=c["code"], strategy=c["strategy"], months=c["n"], feed_mult_head=c["feed_mult"][:6],
                    grass_mult_head=c["grass_mult"][:6], species=[a.animal_type for a in animals]), limit=3)
    # priority order: net kcals gained per slaughter hour, descending
    # (the ranking is made from the species' tabulated livestock units, before the regional factor is applied)
    one_lsu = 29000.0 / 12 / 4.187 * 1000 / 1e9
    keys = []
    for a in animals:
        lsu, hours, size, digestion = herd.species_attributes(a.animal_type)     # from the shipped table, not from the objects under test
        if (a.livestock_unit, a.animal_slaughter_hours, a.animal_size, a.digestion_type) != (lsu, hours, size, digestion):
            ctx.fail("species-attributes-differ-from-the-shipped-table",
                     "%s: object has %r, table has %r" % (a.animal_type, (a.livestock_unit, a.animal_slaughter_hours, a.animal_size, a.digestion_type),
                                                          (lsu, hours, size, digestion)), case)
        keys.append(priority_key(dict(type=a.animal_type, size=size, need_per_head=lsu * one_lsu, eff_feed=0.8), kd, hours))
    for i in range(len(keys) - 1):
        if keys[i] < keys[i + 1] * (1 - 1e-12):
            ctx.fail("species-not-served-in-priority-order",
                     "%s (key %.6g) served before %s (key %.6g)" % (animals[i].animal_type, keys[i], animals[i + 1].animal_type, keys[i + 1]), case)
    byname = {a.animal_type: a for a in animals}
    for m, rec in enumerate(log.months):
        g, f = rec["grass_in"], rec["feed_in"]
        if abs(g - grass[m]) > TOL * max(1, grass[m]) or abs(f - feed[m]) > TOL * max(1, feed[m]):
            ctx.fail("feeding-offered-different-supply-than-given", "month %d offered feed %.6g grass %.6g, supplied %.6g %.6g" % (m, f, g, feed[m], grass[m]), case)
        unsatisfied_before = False
        for sp in rec["species"]:
            want = herd.ref_need_per_head(c["code"], sp["species_name"], herd.species_attributes(sp["type"])[0])
            if abs(sp["need_per_head"] - want) > 1e-12 * want:
                ctx.fail("per-head-requirement-differs-from-livestock-units-x-regional-factor",
                         "month %d %s: the feeding step works with %.9g billion kcals per head, tabulated livestock units x one LSU x regional factor = %.9g"
                         % (m, sp["type"], sp["need_per_head"], want), case)
            sp = dict(sp, need_per_head=want)
            g2, f2, delivered, rq = ref_feed(sp["herd"], sp["need_per_head"], sp["ruminant"], g, f, sp["eff_grass"], sp["eff_feed"])
            took_feed = f - f2
            if took_feed > TOL * max(1.0, f) and unsatisfied_before:
                # reference allocator cannot do this by construction; guards the reference itself
                raise RuntimeError("reference allocator served feed out of order")
            if not sp["ruminant"] and g2 != g:
                raise RuntimeError("reference allocator gave grass to a non-ruminant")
            g, f = g2, f2
            digest = herd.species_attributes(sp["type"])[3]
            if sp["ruminant"] != (digest == "ruminant"):
                ctx.fail("grass-eligibility-differs-from-digestion-type", "%s digestion %s treated ruminant=%s" % (sp["type"], digest, sp["ruminant"]), case)
            judge_species(ctx, "month %d %s" % (m, sp["type"]), sp["herd"], sp["fed"], sp["owed"], delivered, rq, case,
                          scale=max(rec["grass_in"], rec["feed_in"]))
            if rq > 0 and delivered < rq * (1 - 1e-12):
                unsatisfied_before = True
        scale = max(rec["grass_in"], rec["feed_in"], 1e-300)
        if abs(rec["feed_out"] - f) > TOL * scale or abs(rec["grass_out"] - g) > TOL * scale:
            ctx.fail("leftover-feed-or-grass-differs-from-greedy-allocation",
                     "month %d: feed left %.9g (reference %.9g), grass left %.9g (reference %.9g)" % (m, rec["feed_out"], f, rec["grass_out"], g), case)
        if abs(fu[m] - (rec["feed_in"] - rec["feed_out"])) > TOL * scale or abs(gu[m] - (rec["grass_in"] - rec["grass_out"])) > TOL * scale:
            ctx.fail("feed_used-or-grass_used-not-supply-minus-leftover", "month %d feed_used %.9g grass_used %.9g" % (m, fu[m], gu[m]), case)
        if fu[m] > feed[m] * (1 + TOL) + 1e-12 or gu[m] > grass[m] * (1 + TOL) + 1e-12 or fu[m] < -1e-12 or gu[m] < -1e-12:
            ctx.fail("more-used-than-supplied", "month %d feed_used %.9g of %.9g, grass_used %.9g of %.9g" % (m, fu[m], feed[m], gu[m], grass[m]), case)
    if len(log.months) != c["n"]:
        ctx.fail("feeding-not-once-per-month", "%d feedings for %d months" % (len(log.months), c["n"]), case)
    # the returned starving list is herd - fed of that month's feeding, never negative
    for a in animals:
        sp = np.asarray(a.population_starving_pre_slaughter, float)
        if len(sp) != c["n"] + 1:
            ctx.fail("starving-list-wrong-length", "%s %d" % (a.animal_type, len(sp)), case)
        if np.any(sp < -1e-6):
            m = int(np.argmin(sp))
            ctx.fail("negative-starving-count", "%s month %d starving %.6g" % (a.animal_type, m - 1, sp[m]), case)
        for m, rec in enumerate(log.months):
            r = [x for x in rec["species"] if x["type"] == a.animal_type][0]
            if abs(sp[m + 1] - (r["herd"] - r["fed"])) > 1e-9 * max(1, r["herd"]):
                ctx.fail("starving-not-herd-minus-fed", "%s month %d" % (a.animal_type, m), case)


def shard(ctx):
    thorough = ctx.tier == "thorough"
    drive(ctx, unit_case(), lambda c: run_unit(ctx, c), 60000 if thorough else 4000, tag="unit")
    codes = model.iso3_list() + ["WOR"]
    # (Eswatini is SWT in the model's country table - the code the integrated model passes - and SWZ in the FAO tables: both are drawn)
    codes = codes + ["SWZ"]
    drive(ctx, herd_case(codes), lambda c: run_herd(ctx, c), 700 if thorough else 60, shrink=thorough, tag="herd")
    # the world aggregate has every species: always run it at partial supply; so are the two spellings of Eswatini (the only row whose
    # code differs between the model's country table and the FAO tables)
    from vlib.harness import Violation
    fixed = [("WOR", s_) for s_ in herd.STRATEGIES] + [("SWT", herd.STRATEGIES[0]), ("SWZ", herd.STRATEGIES[0])]
    for i, (code, s_) in enumerate(fixed):
        if i % ctx.nshards != ctx.shard:
            continue
        ctx.count()
        try:
            run_herd(ctx, dict(code=code, strategy=s_, n=24, feed_mult=[0.3] * 24, grass_mult=[0.6] * 24))
        except Violation as v:
            ctx.record_violation(v)


def replay(case, ctx):
    ctx.count()
    c = {k: v for k, v in case.items() if k != "kind"}
    if case["kind"] == "unit":
        run_unit(ctx, c)
    else:
        run_herd(ctx, c)


# coverage-guided tier (vlib/fuzz.py): the single-species feeding step, branch coverage of animal_populations.py as guidance
FUZZ_IMPORTS = ["src.food_system.animal_populations", "src.food_system.food", "src.food_system.unit_conversions"]
FUZZ_TARGETS = {"unit": (lambda ctx: (unit_case(), lambda c: run_unit(ctx, c)), 4000, 200000, 2)}
