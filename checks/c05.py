"""C05 — meat and milk offered to the optimiser match the simulated herds and feed."""
import numpy as np
from hypothesis import strategies as st

from vlib import model, gen
from vlib.harness import drive, Violation
from checks.c01 import case_strategy, BUNDLES

PROPERTY = "C05"
RULE = ("drawn three-round runs (all option families incl. the three breeding strategies, culling on/off, waste levels, "
        "kg_meat_per_large_animal overrides, horizons 48..120, country and world scale); the herd simulation of each round is captured "
        "by wrapping the CalculateFeedAndMeat constructor and the time constants of each round by wrapping compute_parameters_*; meat energy "
        "is recomputed from the monthly slaughter counts by size/type x documented per-head yields x (1 - distribution waste) and compared "
        "month by month (rounds 1 and 3) or in total (round 2), milk from the milking-herd sizes, plus feed charged >= feed eaten, grass "
        "eaten <= grass available, and no-feed rounds run on no feed.  Non-trivial = run where the final round charges feed > 0 and the "
        "slaughter series differs between rounds 1 and 3; distinct by (iso3, options).")
ASSUMPTIONS = ["per-head yields: kg x kcal/kg with 2.36/24.6/269.7 kg and 1525/3590/2750 kcal/kg, pig and chicken kg from the country row, large-animal kg overridable",
               "milk energy 610 kcal/kg; relative tolerance 1e-9"]
TOL = 1e-9


def yields(cp):
    kg_large = cp.get("kg_meat_per_large_animal", 269.7)
    return dict(chicken=cp["KG_MEAT_PER_CHICKEN"] * 1525 / 1e9, pig=3590 * cp["KG_MEAT_PER_PIG"] / 1e9,
                small=1525 * 2.36 / 1e9, medium=3590 * 24.6 / 1e9, large=2750 * kg_large / 1e9)


def meat_from_herd(herd, cp):
    y = yields(cp)
    n = len(herd.all_animals[0].slaughter)
    tot = np.zeros(n)
    for a in herd.all_animals:
        s = np.asarray(a.slaughter, float)
        if a.animal_type == "chicken":
            tot += s * y["chicken"]
        elif a.animal_type == "pig":
            tot += s * y["pig"]
        else:
            tot += s * y[a.animal_size]
    return tot * (1 - cp["WASTE_DISTRIBUTION"]["MEAT"] / 100.0)


def milk_from_herd(herd, cp):
    n = len(herd.all_animals[0].population)
    pop = np.zeros(n)
    for a in herd.all_animals:
        if "milk" in a.animal_type:
            pop += np.asarray(a.population, float)
    if not cp["ADD_MILK"]:
        return np.zeros(n)
    tons = pop * cp["MILK_YIELD_KG_PER_MILK_BEARING_ANIMAL_PER_YEAR"] / 12.0 / 1000.0
    return tons * 1e3 * 610.0 / 1e9 * (1 - cp["WASTE_DISTRIBUTION"]["MILK"] / 100.0) * (1 - cp["WASTE_RETAIL"] / 100.0)


def close(a, b, scale=None):
    a, b = np.asarray(a, float), np.asarray(b, float)
    s = max(1e-12, float(np.max(np.abs(b))) if scale is None else scale)
    return a.shape == b.shape and float(np.max(np.abs(a - b))) <= TOL * s


def run_case(ctx, iso3, options, title):
    r = model.run_case(iso3, options, title=title)
    if not r["ok"]:
        ctx.abort("%s@%s" % (r["exc_type"], r["exc_frame"]))
        return
    cap = r["cap"]
    case = dict(kind="run", iso3=iso3, options=options)
    cp = cap.rounds["first"]["args"][0]          # constants_for_params
    N = cp["NMONTHS"]
    herd_by_round = {h["round"]: h for h in cap.herds}
    tcs = {"first": cap.rounds["first"]["out"][1]}
    if "second" in cap.rounds and cap.rounds["second"]["out"][1] is not None:
        tcs["second"] = cap.rounds["second"]["out"][1]
    tcs["third"] = cap.rounds["third"]["out"][1]
    consts = {"first": cap.rounds["first"]["out"][0], "third": cap.rounds["third"]["out"][0]}
    if "second" in tcs:
        consts["second"] = cap.rounds["second"]["out"][0]
    if "third" not in herd_by_round:
        herd_by_round["third"] = herd_by_round["first"]   # no feed charged: the final round re-uses the no-feed herds
    slaughter_sig = {}
    for rnd in ("first", "second", "third"):
        if rnd not in tcs:
            continue
        h = herd_by_round[rnd]
        herd = h["obj"]
        tc = tcs[rnd]
        got = np.asarray(tc["each_month_meat_slaughtered"].kcals, float)
        exp = meat_from_herd(herd, cp)
        ctx.event("round_" + rnd)
        slaughter_sig[rnd] = exp.copy()
        if len(got) != N or len(exp) != N:
            ctx.fail("meat-series-wrong-length:" + rnd, "%d / %d entries for %d months" % (len(got), len(exp), N), case)
        if rnd == "second":
            if abs(got.sum() - exp.sum()) > max(1e-3, TOL * exp.sum()):      # the re-timing asserts |delta| <= 0.001 itself
                ctx.fail("meat-total-differs-from-herd-slaughter:second",
                         "%s: offered %.9g, herd slaughter x yields %.9g" % (iso3, got.sum(), exp.sum()), case)
        elif not close(got, exp, scale=max(1e-12, float(np.max(exp)))):
            m = int(np.argmax(np.abs(got - exp)))
            ctx.fail("meat-differs-from-herd-slaughter:" + rnd,
                     "%s month %d: offered %.9g billion kcal, slaughter x per-head yields x (1-waste) = %.9g" % (iso3, m, got[m], exp[m]), case)
        cum = np.asarray(tc["max_consumed_culled_kcals_each_month"], float)
        if not close(cum, np.cumsum(got), scale=max(1e-12, float(np.sum(got)))):
            ctx.fail("running-meat-total-differs-from-monthly-series:" + rnd, iso3, case)
        tot = float(consts[rnd]["meat_summed_consumption"])
        if abs(tot - exp.sum()) > max(1e-3 if rnd == "second" else 0.0, TOL * max(1e-12, exp.sum())):
            ctx.fail("meat-total-constant-differs-from-herd-slaughter:" + rnd, "%s: %.9g vs %.9g" % (iso3, tot, exp.sum()), case)
        milk = np.asarray(tc["milk_kcals"], float)
        mexp = milk_from_herd(herd, cp)
        if not close(milk, mexp, scale=max(1e-12, float(np.max(mexp)) if mexp.size else 1.0)):
            m = int(np.argmax(np.abs(milk - mexp)))
            ctx.fail("milk-differs-from-milking-herds:" + rnd,
                     "%s month %d: offered %.9g, herds x yield x 610 kcal/kg x (1-waste) = %.9g" % (iso3, m, milk[m], mexp[m]), case)
        # grass
        grass_av = np.asarray(h["kwargs"]["available_grass"].kcals, float)
        grass_used = np.asarray(herd.grass_used.kcals, float)
        if np.any(grass_used > grass_av * (1 + TOL) + 1e-12):
            m = int(np.argmax(grass_used - grass_av))
            ctx.fail("herds-eat-more-grass-than-available:" + rnd, "%s month %d: %.9g of %.9g" % (iso3, m, grass_used[m], grass_av[m]), case)
        feed_av = np.asarray(h["kwargs"]["available_feed"].kcals, float)
        feed_used = np.asarray(herd.feed_used.kcals, float)
        if np.any(feed_used > feed_av * (1 + TOL) + 1e-12):
            ctx.fail("herds-eat-more-feed-than-offered:" + rnd, iso3, case)
        if rnd == "first":
            if np.any(feed_av != 0) or np.any(feed_used != 0):
                ctx.fail("no-feed-round-runs-herds-on-feed", "%s: feed offered %.6g, eaten %.6g" % (iso3, feed_av.sum(), feed_used.sum()), case)
            if np.any(np.asarray(tc["feed"].kcals, float) != 0) or np.any(np.asarray(tc["biofuel"].kcals, float) != 0):
                ctx.fail("no-feed-round-charges-feed", iso3, case)
        if rnd == "third":
            charged = np.asarray(tc["feed"].kcals, float)
            if np.any(charged < feed_used * (1 - TOL) - 1e-12):
                m = int(np.argmax(feed_used - charged))
                ctx.fail("final-round-charges-less-feed-than-herds-ate",
                         "%s month %d: charged %.9g, herds ate %.9g" % (iso3, m, charged[m], feed_used[m]), case)
            if np.all(charged == 0) and np.any(feed_used != 0):
                ctx.fail("round-charging-no-feed-runs-herds-on-feed", iso3, case)
    if float(np.sum(tcs["third"]["feed"].kcals)) > 0 and not np.allclose(slaughter_sig["first"], slaughter_sig["third"], rtol=1e-9, atol=0):
        ctx.nontrivial_case(dict(iso3=iso3, options=options))
    ctx.event("strategy_" + options["meat_strategy"])
    ctx.sample(dict(iso3=iso3, options={k: options[k] for k in ("meat_strategy", "cull", "shutoff", "waste", "NMONTHS")},
                    meat_totals={k: float(v.sum()) for k, v in slaughter_sig.items()}), limit=4)


def strategy():
    def with_kg(case):
        return case
    base = case_strategy()
    kg = st.tuples(gen.country(), gen.options("country", overrides=True, shutoff=["continued", "long_delayed_shutoff", "short_delayed_shutoff",
                                                                                 "continued_after_10_percent_fed", "long_delayed_shutoff_after_10_percent_fed"]))
    return st.one_of(base, kg)


def shard(ctx):
    thorough = ctx.tier == "thorough"

    def body(case):
        iso3, options = case
        run_case(ctx, iso3, options, "c05_%d_%d" % (ctx.shard, ctx.evaluations))
    drive(ctx, strategy(), body, 110 if thorough else 20, shrink=False, tag="runs")
    model.run_fixed(ctx, model.extreme_cases_wide(rotate=True), lambda iso, o, k: (ctx.count(), run_case(ctx, iso, o, "c05x_%s" % iso)))
    # the zero boundary of the per-head columns: rows whose pig / chicken carcass weight is 0, given a herd of that species to slaughter
    t = model.country_table()
    zero_rows = [(iso, "pig_head") for iso in t[t["kg_meat_per_pig"] == 0]["iso3"].tolist()[:3]] + \
                [(iso, "chicken_head") for iso in t[t["kg_meat_per_chicken"] == 0]["iso3"].tolist()[:2]]
    if "SYR" in t[t["kg_meat_per_pig"] == 0]["iso3"].tolist():
        zero_rows.append(("SYR", None))
    cases = [(iso, dict(model.BASELINE_COUNTRY, NMONTHS=48, **({col: 10**6} if col else {}))) for iso, col in zero_rows]
    model.run_fixed(ctx, cases, lambda iso, o, k: (ctx.count(), ctx.event("zero_carcass_weight_row"), run_case(ctx, iso, o, "c05z_%s" % iso)))
    # countries the source singles out by name (hand-written exceptions): the four families that steer the rounds, enumerated in the
    # thorough tier (168 combinations each), a seeded sample of 6 each in the quick tier
    model.run_fixed(ctx, model.named_country_cases(None if thorough else 6, seed=ctx.seed),
                    lambda iso, o, k: (ctx.count(), ctx.event("named_country_run"), run_case(ctx, iso, o, "c05n_%s_%d" % (iso, k))))
    if thorough:
        for i, iso in enumerate(model.iso3_list()):
            if i % ctx.nshards != ctx.shard:
                continue
            for b, bundle in enumerate(BUNDLES[:6]):
                ctx.count()
                try:
                    run_case(ctx, iso, dict(model.BASELINE_COUNTRY, **bundle), "c05e_%s_%d" % (iso, b))
                except Violation as v:
                    ctx.record_violation(v)


def replay(case, ctx):
    ctx.count()
    run_case(ctx, case["iso3"], case["options"], "c05_replay")
