"""C17 — shipped input tables are exactly what the import pipeline derives from raw data."""
import hashlib
import os
import subprocess
import sys
from concurrent.futures import ThreadPoolExecutor
from fractions import Fraction

import numpy as np
from hypothesis import strategies as st

from vlib import workspace, model
from vlib.harness import drive, quiet, Violation

PROPERTY = "C17"
RULE = ("(a) all 21 import scripts are executed in a scratch copy of the working tree from which every processed table and the combined table "
        "have been deleted first (18 independent scripts in parallel, then the two per-animal scripts, then the merge) and every regenerated "
        "file is compared byte for byte with the shipped one - a finite domain, enumerated completely; (b) all 164 x 211 cells of the shipped "
        "combined table are validated by predicates written independently of verify_country_data; (c) Hypothesis over "
        "weighted_average_percentages / average_percentages: percentages drawn from valid (-100..1e5) and impossible values, weights as exact "
        "rationals normalised to 1.  Non-trivial = (a) a regenerated file, (b) a table cell, (c) a vector with >= 1 impossible and >= 2 distinct "
        "valid entries; distinct by file name / cell / vector hash.")
ASSUMPTIONS = ["the shipped raw data (xlsx, FAOSTAT csv, Rutgers csv) are the inputs; pandas/openpyxl versions are those of /venv",
               "averaging tolerance 1e-9 relative to the largest valid magnitude, plus 16 eps / (share of valid weight): the documented formula divides by 1 - sum(rejected weights)",
               "weight shares down to 1e-6 are generated (1e-9 was tried: the result then leaves the range of the valid inputs by 3e-8 relative through that cancellation alone)"]
EXHAUSTIVE = {"quick": True, "thorough": True}
SENTINEL = 9.37e36
PHASES = [["create_aquaculture_csv", "create_grasses_baseline_csv", "create_scp_csv", "create_biofuel_csv", "create_greenhouse_csv",
           "create_seasonality_csv", "create_crop_macros_csv", "create_head_count_csv", "create_seaweed_csv",
           "create_relocation_improvement_csv", "create_dairy_csv", "create_meat_csv", "create_feed_csv", "create_nuclear_winter_csv",
           "create_food_stock_csv", "create_population_csv", "create_food_waste_csv", "create_pulp_csv"],
          ["create_milk_per_animal_csv", "create_meat_per_animal_csv"],
          ["import_food_data"]]


def sha(path):
    return hashlib.sha256(open(path, "rb").read()).hexdigest()


def regenerate(ctx):
    scratch = workspace.scratch()
    repo = workspace.REPO
    pd_dir = os.path.join("data", "no_food_trade", "processed_data")
    combined = os.path.join("data", "no_food_trade", "computer_readable_combined.csv")
    shipped = sorted(f for f in os.listdir(os.path.join(repo, pd_dir)) if f.endswith(".csv"))
    scripts_dir = os.path.join(scratch, "src", "import_scripts_no_food_trade")
    present = sorted(f[:-3] for f in os.listdir(scripts_dir) if f.endswith(".py") and f != "__init__.py")
    planned = sorted(s for ph in PHASES for s in ph)
    if present != planned:
        ctx.fail("import-scripts-differ-from-the-documented-pipeline", "scripts present %s, pipeline %s" %
                 (sorted(set(present) - set(planned)), sorted(set(planned) - set(present))), dict(kind="regen"))
    for f in shipped:
        os.remove(os.path.join(scratch, pd_dir, f))
    os.remove(os.path.join(scratch, combined))
    env = dict(os.environ, PYTHONPATH=scratch + os.pathsep + workspace.VERIF, MPLBACKEND="Agg")

    def run(script):
        p = subprocess.run([sys.executable, os.path.join(scripts_dir, script + ".py")], cwd=scripts_dir, env=env, capture_output=True, text=True)
        return script, p.returncode, (p.stderr or "")[-300:]
    for phase in PHASES:
        with ThreadPoolExecutor(max_workers=6) as ex:
            for script, rc, err in ex.map(run, phase):
                ctx.count()
                ctx.event("script_run")
                if rc != 0:
                    ctx.fail("import-script-fails:" + script, "exit %d: %s" % (rc, err.replace("\n", " | ")), dict(kind="regen"))
    produced = sorted(f for f in os.listdir(os.path.join(scratch, pd_dir)) if f.endswith(".csv"))
    if produced != shipped:
        ctx.fail("pipeline-produces-a-different-set-of-tables", "missing %s, extra %s" %
                 (sorted(set(shipped) - set(produced)), sorted(set(produced) - set(shipped))), dict(kind="regen"))
    for rel in [os.path.join(pd_dir, f) for f in shipped] + [combined]:
        ctx.count()
        ctx.nontrivial_case("file:" + rel)
        a, b = os.path.join(scratch, rel), os.path.join(repo, rel)
        if not os.path.exists(a):
            ctx.fail("pipeline-does-not-produce:" + os.path.basename(rel), rel, dict(kind="regen"))
        if sha(a) != sha(b):
            la, lb = open(a, "rb").read().split(b"\n"), open(b, "rb").read().split(b"\n")
            first = next((i for i, (x, y) in enumerate(zip(la, lb)) if x != y), min(len(la), len(lb)))
            ctx.fail("shipped-table-differs-from-regenerated:" + os.path.basename(rel),
                     "%s: first difference in line %d (regenerated %d lines, shipped %d lines): regenerated %r / shipped %r" %
                     (rel, first + 1, len(la), len(lb), la[first][:120] if first < len(la) else b"", lb[first][:120] if first < len(lb) else b""),
                     dict(kind="regen"))
    ctx.sample(dict(regenerated_and_identical=[os.path.basename(f) for f in shipped[:4]] + ["...", "computer_readable_combined.csv"],
                    scripts=len(planned)), limit=5)


def cells(ctx):
    import pandas as pd
    t = pd.read_csv(os.path.join(workspace.REPO, "data", "no_food_trade", "computer_readable_combined.csv"))
    case = dict(kind="cells")
    from src.utilities.import_utilities import ImportUtilities
    expected = sorted(c.replace("SWZ", "SWT") for c in ImportUtilities.country_codes)
    ctx.count(int(t.shape[0] * t.shape[1]))
    if t.shape != (164, 211):
        ctx.fail("combined-table-has-wrong-shape", repr(t.shape), case)
    if sorted(t["iso3"]) != expected:
        ctx.fail("combined-table-does-not-have-one-row-per-expected-country",
                 "missing %s, unexpected %s, duplicated %s" % (sorted(set(expected) - set(t["iso3"]))[:5], sorted(set(t["iso3"]) - set(expected))[:5],
                                                              sorted(t["iso3"][t["iso3"].duplicated()])[:5]), case)
    if t.isnull().values.any():
        r, c = np.argwhere(t.isnull().values)[0]
        ctx.fail("combined-table-has-a-missing-value", "%s / %s" % (t["iso3"][r], t.columns[c]), case)
    num = t.select_dtypes(include=[np.number])
    if not np.all(np.isfinite(num.values)):
        ctx.fail("combined-table-has-a-non-finite-value", "", case)
    seas = t[["seasonality_m%d" % i for i in range(1, 13)]]
    bad = np.abs(seas.sum(axis=1) - 1) > 1e-6
    if bad.any() or (seas.values < 0).any() or (seas.values > 1).any():
        ctx.fail("seasonality-shares-do-not-sum-to-one", str(t["iso3"][bad].tolist()[:5]), case)
    fractions = [c for c in t.columns if c.startswith("distribution_loss_") or c.startswith("retail_waste_") or
                 c in ("fraction_crop_area", "initial_seaweed_fraction", "new_area_fraction", "max_area_fraction", "initial_built_fraction",
                       "percent_of_global_capex", "percent_of_global_production")]
    for c in fractions:
        if ((t[c] < 0) | (t[c] > 1)).any():
            ctx.fail("fraction-outside-0-1:" + c, str(t["iso3"][(t[c] < 0) | (t[c] > 1)].tolist()[:5]), case)
    for c in [c for c in t.columns if "_reduction_year" in c]:
        if (t[c] < -1 - 1e-8).any():
            ctx.fail("reduction-below-minus-100-percent:" + c, str(t["iso3"][t[c] < -1 - 1e-8].tolist()[:5]), case)
    signed = set(fractions) | {c for c in t.columns if "_reduction_year" in c} | {c for c in t.columns if c.startswith("seaweed_growth_per_day_")} | \
        {c for c in t.columns if c.startswith("stocks_kcals_")}       # stocks may be -0.0 / tiny negative by construction (documented in the model's checks)
    for c in num.columns:
        if c in signed:
            continue
        if (t[c] < 0).any():
            ctx.fail("negative-quantity:" + c, str(t["iso3"][t[c] < 0].tolist()[:5]), case)
    for c in [c for c in t.columns if c.startswith("stocks_kcals_")]:
        if (t[c] < -1e-8).any():
            ctx.fail("negative-quantity:" + c, str(t["iso3"][t[c] < -1e-8].tolist()[:5]), case)
    for i in range(t.shape[0]):
        ctx.nontrivial_case("row:" + t["iso3"][i])


@st.composite
def avg_case(draw):
    n = draw(st.integers(1, 8))
    valid = st.sampled_from([-100.0, 0.0, 1e5, -37.5]) | st.floats(-100, 1e5)
    impossible = st.sampled_from([9.37e36, -100.0001, 1e5 + 1, -1e30]) | st.floats(1e5 + 1e-6, 1e38) | st.floats(-1e38, -100 - 1e-6)
    vals = draw(st.lists(st.one_of(valid, valid, impossible), min_size=n, max_size=n))
    # weights are numerators over their sum: small integers, and now and then a huge one, so that the other shares become 1e-3 .. 1e-6
    ints = draw(st.lists(st.integers(0, 20) | st.integers(0, 20) | st.sampled_from([10**3, 10**5, 10**6]), min_size=n, max_size=n).filter(lambda w: sum(w) > 0))
    # how the caller holds the numbers (the scripts pass lists; rows of a table are arrays / Series); the SAME objects are handed to the
    # helper twice, as a caller that averages a table in two passes does
    # ("series_labelled": a row of a table indexed by crop names, the weights a Series with the same labels in another order - the
    # helper pairs values and weights by POSITION, as its list-based documentation says)
    cont = draw(st.sampled_from(["list", "tuple", "ndarray", "series", "series_labelled"]))
    return dict(kind="avg", percentages=vals, weights_num=ints, container=cont)


def is_valid(p):
    return -100 <= p <= 1e5


def avg(ctx, c):
    from src.utilities.import_utilities import ImportUtilities
    p = c["percentages"]
    tot = sum(c["weights_num"])
    w_exact = [Fraction(k, tot) for k in c["weights_num"]]
    w = [float(x) for x in w_exact]
    valid = [(x, wx) for x, wx in zip(p, w_exact) if is_valid(x)]
    wsum = sum(wx for _, wx in valid)
    import pandas as pd
    mk = {"list": list, "tuple": tuple, "ndarray": lambda x: np.array(x, dtype=float), "series": lambda x: pd.Series(x, dtype=float),
          "series_labelled": None}[c.get("container", "list")]
    if c.get("container") == "series_labelled":
        p_obj = pd.Series(p, index=["crop%d" % i for i in range(len(p))], dtype=float)
        w_obj = pd.Series(w, index=["crop%d" % i for i in reversed(range(len(w)))], dtype=float)
    else:
        p_obj, w_obj = mk(p), mk(w)
    try:
        with quiet():
            got = ImportUtilities.weighted_average_percentages(p_obj, w_obj)
            again = ImportUtilities.weighted_average_percentages(p_obj, w_obj)
    except AssertionError:
        ctx.fail("averaging-helper-rejects-well-formed-input", "percentages %r, weights %r (sum %r)" % (p, w, sum(w)), c)
        return
    ctx.event("container_" + c.get("container", "list"))
    if not (again == got or (again != again and got != got)):
        changed = [(i, x, y) for i, (x, y) in enumerate(zip(p, list(p_obj))) if not (x == y)]
        ctx.fail("averaging-the-same-data-twice-gives-different-results",
                 "first %.12g, second %.12g on the same %s; entries of the caller's data altered by the first call: %r" %
                 (got, again, c.get("container", "list"), changed[:4]), c)
    if any(not is_valid(x) for x in p) and len({x for x, wx in valid if wx > 0}) >= 2:
        ctx.nontrivial_case(c)
    ctx.event("no_valid_weight" if wsum == 0 else ("some_impossible" if len(valid) < len(p) else "all_valid"))
    if wsum == 0:
        if got != SENTINEL:
            ctx.fail("averaging-without-valid-input-does-not-return-the-sentinel", "got %r" % got, c)
        return
    exp = float(sum(Fraction(x) * wx for x, wx in valid) / wsum)
    # the documented formula divides by 1 - (sum of rejected weights): with a valid share s that subtraction carries a relative rounding
    # error of about eps / s, which is arithmetic, not a wrong average
    scale = max(1.0, max(abs(x) for x, _ in valid)) * (1.0 + 16 * 2.2e-16 / float(wsum) / 1e-9)
    if not np.isfinite(got) or abs(got - exp) > 1e-9 * scale:
        ctx.fail("average-is-not-the-weighted-mean-of-the-valid-entries", "got %.12g, weighted mean of valid entries %.12g" % (got, exp), c)
    carriers = [x for x, wx in valid if wx > 0]
    if got < min(carriers) - 1e-9 * scale or got > max(carriers) + 1e-9 * scale:
        ctx.fail("average-outside-the-range-of-the-valid-inputs", "got %.12g, range [%g, %g]" % (got, min(carriers), max(carriers)), c)
    # removing the impossible entries (remaining weights renormalised) must not change the result
    if len(valid) < len(p):
        keep = [(x, float(wx / wsum)) for x, wx in valid]
        with quiet():
            got2 = ImportUtilities.weighted_average_percentages([x for x, _ in keep], [wx for _, wx in keep])
        if abs(got2 - got) > 1e-9 * scale:
            ctx.fail("impossible-entries-influence-the-average", "with %.12g, without %.12g" % (got, got2), c)
    # the unweighted helper
    with quiet():
        got3 = ImportUtilities.average_percentages(list(p))
    v = [x for x in p if is_valid(x)]
    if v:
        exp3 = float(sum(Fraction(x) for x in v) / len(v))
        if abs(got3 - exp3) > 1e-9 * max(1.0, max(abs(x) for x in v)):
            ctx.fail("unweighted-average-is-not-the-mean-of-the-valid-entries", "got %.12g expected %.12g" % (got3, exp3), c)
    elif got3 != SENTINEL:
        ctx.fail("averaging-without-valid-input-does-not-return-the-sentinel", "average_percentages -> %r" % got3, c)


def shard(ctx):
    thorough = ctx.tier == "thorough"
    if ctx.shard == 0:
        try:
            regenerate(ctx)
        except Violation as v:
            ctx.record_violation(v)
    if ctx.shard == 1 % ctx.nshards:
        try:
            cells(ctx)
        except Violation as v:
            ctx.record_violation(v)
    drive(ctx, avg_case(), lambda c: avg(ctx, c), 60000 if thorough else 1500, tag="avg")


def replay(case, ctx):
    ctx.count()
    if case["kind"] == "avg":
        avg(ctx, case)
    elif case["kind"] == "cells":
        cells(ctx)
    elif ctx.shard >= 1000:
        # a saved regeneration failure replayed next to an exploring run: the regeneration has no input and shard 0 of that run performs it
        # anyway (two regenerations in the same scratch copy would race)
        return
    else:
        regenerate(ctx)


# coverage-guided tier (vlib/fuzz.py): the weighted-averaging helper
FUZZ_IMPORTS = ["src.utilities.import_utilities"]
FUZZ_TARGETS = {"avg": (lambda ctx: (avg_case(), lambda c: avg(ctx, c)), 3000, 200000, 2)}
