"""C03 — humans come before animal feed and biofuel."""
import numpy as np
from hypothesis import strategies as st

from vlib import model, gen
from vlib.harness import drive, Violation

PROPERTY = "C03"
RULE = ("three-round runs for drawn (country|world, options) with the shut-off family biased to the delayed / continued schedules and the "
        "minimum-share threshold T overridden with values in [0,100] (0, 10, 50, 100 boosted), nuclear-winter and baseline climates, all "
        "other families free; from the captured rounds: (a) final percent fed < T - 0.1 => feed + biofuel taken from human-edible food <= "
        "0.1 percent-fed-equivalent in every month and final >= no-feed result - 0.1; (b) no-feed result >= T => final >= T - 0.1; (c) in "
        "every round and month feed and biofuel used <= the demand schedule recomputed from the scenario constants, and zero from the "
        "shut-off month on (2e-6 relative; largest excess on the unchanged tree 3e-8).  The extreme rows of the input table are always run "
        "under two thresholds, and every third run is repeated with T right next to its no-feed result.  Non-trivial = run with non-zero demand in which the feed round executed, or in which the no-feed result is "
        "below T; distinct by (iso3, options).")
ASSUMPTIONS = ["'essentially no' = 0.1 percent-fed-equivalent per month and 0.1 percentage points, the grace the model's own (non-raising) validators use",
               "use above the demand schedule: 2e-6 relative + 1e-6 billion kcal; after the shut-off month: 1e-6 + 2e-6 x the largest monthly demand",
               "demand schedule = annual feed / biofuel use / 12 for the configured number of months, zero afterwards"]
GRACE = 0.1
SHUTOFFS = ["one_month_delayed_shutoff", "short_delayed_shutoff", "long_delayed_shutoff", "continued", "continued_after_10_percent_fed",
            "long_delayed_shutoff_after_10_percent_fed", "immediate"]


def demand_schedule(cp):
    N = cp["NMONTHS"]
    f = np.zeros(N)
    b = np.zeros(N)
    f[: min(N, cp["DELAY"]["FEED_SHUTOFF_MONTHS"])] = cp["FEED_KCALS"] / 12.0 * 4e6 / 1e9
    b[: min(N, cp["DELAY"]["BIOFUEL_SHUTOFF_MONTHS"])] = cp["BIOFUEL_KCALS"] / 12.0 * 4e6 / 1e9
    return f, b


def used(cap):
    v, c = cap["vals"], cap["consts"]
    K = c["SEAWEED_KCALS"]
    f = v["stored_food_feed"] + v["crops_food_feed"] + v["seaweed_feed"] * K + v["cellulosic_sugar_feed"] + v["methane_scp_feed"]
    b = v["stored_food_biofuel"] + v["crops_food_biofuel"] + v["seaweed_biofuel"] * K + v["cellulosic_sugar_biofuel"] + v["methane_scp_biofuel"]
    return f, b


def run_case(ctx, iso3, options, title):
    r = model.run_case(iso3, options, title=title)
    if not r["ok"]:
        ctx.abort("%s@%s" % (r["exc_type"], r["exc_frame"]))
        return
    cap = r["cap"]
    case = dict(kind="run", iso3=iso3, options=options)
    cp = cap.rounds["first"]["args"][0]
    T = float(cp["MINIMUM_PERCENT_FED_BEFORE_NONHUMAN_CONSUMPTION_ALLOWED"])
    fd, bd = demand_schedule(cp)
    need = None
    n_lps = len(cap.opt)
    for k, lp in enumerate(cap.opt):
        f, b = used(lp)
        need = float(lp["consts"]["BILLION_KCALS_NEEDED"])
        for name, u, d, months in (("feed", f, fd, cp["DELAY"]["FEED_SHUTOFF_MONTHS"]), ("biofuel", b, bd, cp["DELAY"]["BIOFUEL_SHUTOFF_MONTHS"])):
            ctx.residual("use_over_demand_rel_" + name, float(np.max((u - d) / np.maximum(d, 1e-9) * (d > 1e-6))) if np.any(d > 1e-6) else 0.0)
            over = u - d * (1 + 2e-6) - 1e-6      # largest excess seen on the unchanged tree: 3e-8 relative
            if np.any(over > 0):
                m = int(np.argmax(over))
                ctx.fail("%s-exceeds-demand-schedule" % name,
                         "%s lp#%d/%d (%s) month %d: %s used %.9g > demand %.9g" % (iso3, k, n_lps, lp["type"], m, name, u[m], d[m]), case)
            after = u[min(len(u), months):]
            if after.size and np.any(np.abs(after) > 1e-6 + 2e-6 * float(np.max(d))):     # solver noise scales with the rows (world: 1e5)
                m = int(np.argmax(np.abs(after))) + months
                ctx.fail("%s-used-after-shut-off-month" % name,
                         "%s lp#%d (%s): %s %.9g in month %d, shut-off after %d months" % (iso3, k, lp["type"], name, u[m], m, months), case)
    interps = cap.interp
    pf3 = float(r["result"].percent_people_fed)
    ran_rounds = n_lps >= 2
    pf1 = float(interps[0][1].percent_people_fed) if ran_rounds else None
    final = cap.opt[-1]
    f3, b3 = used(final)
    nonhuman_pct = (f3 + b3) / float(final["consts"]["BILLION_KCALS_NEEDED"]) * 100.0
    ctx.event("feed_round_ran" if any(lp["type"] == "to_animals" for lp in cap.opt) else ("zero_demand" if not ran_rounds else "feed_round_skipped"))
    ctx.event("T=%g" % T if T in (0, 10, 50, 100) else "T other")
    ctx.residual("nonhuman_percent_when_below_T", float(np.max(nonhuman_pct)) if pf3 < T - GRACE else 0.0)
    if pf3 < T - GRACE:
        ctx.event("final_below_threshold")
        if np.max(nonhuman_pct) > GRACE:
            m = int(np.argmax(nonhuman_pct))
            msg = ("%s: final %.4f %% fed < T=%.4g, yet month %d sends %.4f percent-fed-equivalent of human-edible food to feed/biofuel (no-feed round: %s)" %
                   (iso3, pf3, T, m, nonhuman_pct[m], "%.4f" % pf1 if pf1 is not None else "not run"))
            if pf1 is not None and pf1 < T:
                # recorded finding: the feed round pins people at the no-feed round's WORST month in every month, so food that the
                # no-feed round could not move to the worst month is released to animals although people are below the minimum share
                ctx.fail("surplus-of-better-months-goes-to-feed-while-worst-month-below-minimum-share", msg, case)
            else:
                ctx.fail("feed-or-biofuel-while-people-below-minimum-share", msg, case)
        if pf1 is not None and pf3 < pf1 - GRACE:
            ctx.fail("final-result-below-no-feed-round", "%s: final %.4f %% < no-feed %.4f %% (T=%.4g)" % (iso3, pf3, pf1, T), case)
    if pf1 is not None and pf1 >= T and pf3 < T - GRACE:
        ctx.fail("final-result-below-minimum-share-although-reachable", "%s: no-feed round %.4f %% >= T=%.4g but final %.4f %%" % (iso3, pf1, T, pf3), case)
    if (ran_rounds and (fd.sum() + bd.sum()) > 0 and any(lp["type"] == "to_animals" for lp in cap.opt)) or (pf1 is not None and pf1 < T):
        ctx.nontrivial_case(dict(iso3=iso3, options=options))
    ctx.sample(dict(iso3=iso3, options={k: options.get(k) for k in ("shutoff", "scenario", "crop_disruption", "NMONTHS",
                                                                    "MINIMUM_PERCENT_FED_BEFORE_NONHUMAN_CONSUMPTION_ALLOWED")},
                    T=T, no_feed=pf1, final=pf3, max_nonhuman_pct=float(np.max(nonhuman_pct))), limit=4)
    return pf1


def strategy():
    c = st.tuples(gen.country(), gen.options("country", overrides=True, threshold=True, shutoff=SHUTOFFS))
    w = st.tuples(st.just("WOR"), gen.options("global", threshold=True, shutoff=SHUTOFFS))
    return st.one_of(c, c, c, c, c, c, c, w)


def shard(ctx):
    thorough = ctx.tier == "thorough"

    deltas = [0.05, -0.05, 1.0, -1.0, 0.0]

    def body(case):
        iso3, options = case
        pf1 = run_case(ctx, iso3, options, "c03_%d_%d" % (ctx.shard, ctx.evaluations))
        # every third run is repeated with the threshold put right next to what the no-feed round achieved: min(no-feed, T) changes sides
        if pf1 is not None and 0.2 < pf1 < 99.8 and ctx.evaluations % 3 == 0:
            T2 = round(min(100.0, max(0.0, pf1 + deltas[(ctx.evaluations // 3) % len(deltas)])), 4)
            ctx.count()
            ctx.event("threshold_next_to_no_feed_result")
            run_case(ctx, iso3, dict(options, MINIMUM_PERCENT_FED_BEFORE_NONHUMAN_CONSUMPTION_ALLOWED=T2), "c03b_%d_%d" % (ctx.shard, ctx.evaluations))
    drive(ctx, strategy(), body, 100 if thorough else 20, shrink=False, tag="runs")
    # the extremes of the input table are always run (absolute thresholds and tolerances bite at the smallest rows), two thresholds
    model.run_fixed(ctx, model.extreme_cases(thresholds=(100.0, 2.5)) + model.extreme_cases_wide(bundles=(3, 1)),
                    lambda iso, o, k: (ctx.count(), run_case(ctx, iso, o, "c03x_%s" % iso)))
    if thorough:
        isos = model.iso3_list()
        climates = [dict(), dict(crop_disruption="country_nuclear_winter", grasses="country_nuclear_winter", fish="nuclear_winter")]
        for i, iso in enumerate(isos):
            if i % ctx.nshards != ctx.shard:
                continue
            for s in SHUTOFFS:
                for cl in climates:
                    ctx.count()
                    try:
                        run_case(ctx, iso, dict(model.BASELINE_COUNTRY, shutoff=s, **cl), "c03e_%s" % iso)
                    except Violation as v:
                        ctx.record_violation(v)


def replay(case, ctx):
    ctx.count()
    run_case(ctx, case["iso3"], case["options"], "c03_replay")
