"""C12 — more supply never feeds fewer people, and scale does not matter."""
import copy

import numpy as np
from hypothesis import strategies as st

from vlib import model, gen
from vlib.harness import drive, quiet, Violation, canon_hash
from checks.c01 import case_strategy
from checks.c02 import resolve_model_lp

PROPERTY = "C12"
RULE = ("human-round optimiser inputs captured from drawn three-round runs (country and world scale, all option families); per instance "
        "several drawn single perturbations: one supply increased (initial stock; one month of crops / meat / milk / fish / greenhouse / "
        "SCP / sugar; seaweed farm area), retail waste decreased, feed or biofuel charge of one month increased, or population, need and "
        "every supply multiplied by a common factor in [0.01, 10]; Optimizer(consts', time_consts').optimize_to_humans is called directly and "
        "the optimum compared with the unperturbed one; the extreme rows of the input table and the world run are always perturbed with fixed "
        "scale factors, the meat stock alone and the feed charge, on every human round.  Non-trivial = perturbation that moves the optimum by more than the tolerance, or a "
        "scale factor outside [0.5, 2]; distinct by (instance hash, perturbation).")
ASSUMPTIONS = ["tolerance 2e-5 relative for monotonicity, 5e-5 for the scale law and for instances with the seaweed ledger (CBC absolute tolerances; probe)",
               "a tightening that makes the programme infeasible counts as 'no increase'; a relaxation that leaves the first-stage programme infeasible or below the base value is a violation (a later tie-breaking solve giving up on a perturbed instance is counted as aborted)",
               "seaweed growth factors are not perturbed (biomass cannot be freely disposed of, so monotonicity in growth is not implied)"]
TOL, TOL_LOOSE = 2e-5, 5e-5

KINDS = ["stored", "crops", "meat", "meat_stock", "milk", "fish", "greenhouse", "scp", "cs", "seaweed_area", "waste", "waste_one", "waste_one", "feed_charge",
         "biofuel_charge", "scale"]
WASTE_KEYS = [("STORED_FOOD_WASTE_RETAIL", "ADD_STORED_FOOD"), ("CROP_WASTE_RETAIL", "ADD_OUTDOOR_GROWING"), ("MEAT_WASTE_RETAIL", "ADD_MEAT"),
              ("SCP_RETAIL_WASTE", "ADD_METHANE_SCP"), ("CELL_SUGAR_RETAIL_WASTE", "ADD_CELLULOSIC_SUGAR"), ("SEAWEED_WASTE_RETAIL", "ADD_SEAWEED")]


@st.composite
def perturbation(draw):
    return dict(kind=draw(st.sampled_from(KINDS + ["scale", "crops", "meat", "stored"])), month=draw(st.integers(0, 119)),
                amount=draw(st.sampled_from([0.01, 0.1, 0.5]) | st.floats(0.001, 2.0)),
                scale=draw(st.sampled_from([0.01, 0.1, 0.5, 2.0, 10.0]) | st.floats(0.01, 10.0)))


def _arr(x):
    return np.asarray(x, dtype=float).copy()


def apply(c, tc, p):
    """returns (c', tc', direction) with direction in {'up','down','same'} = what percent fed may do; None if not applicable"""
    c, tc = copy.deepcopy(c), copy.deepcopy(tc)
    N = c["NMONTHS"]
    m = p["month"] % N
    k = p["kind"]
    need = float(c["BILLION_KCALS_NEEDED"])
    delta = p["amount"] * need * 0.1          # up to 20 % of a month's need
    if k == "stored":
        if not c["ADD_STORED_FOOD"]:
            return None
        c["stored_food"].initial_available.kcals = float(np.atleast_1d(_arr(c["stored_food"].initial_available.kcals))[0]) + delta
        return c, tc, "up"
    if k == "crops":
        if not c["ADD_OUTDOOR_GROWING"]:
            return None
        a = _arr(tc["outdoor_crops"].production.kcals)
        a[m] += delta
        tc["outdoor_crops"].production.kcals = a
        return c, tc, "up"
    if k == "meat":
        if not c["ADD_MEAT"]:
            return None
        a = _arr(tc["each_month_meat_slaughtered"].kcals)
        a[m] += delta
        tc["each_month_meat_slaughtered"].kcals = a
        tc["max_consumed_culled_kcals_each_month"] = np.cumsum(a)
        c["meat_summed_consumption"] = float(c["meat_summed_consumption"]) + delta
        return c, tc, "up"
    if k == "meat_stock":
        # the initial meat stock on its own (the month-by-month slaughter ceiling left alone)
        if not c["ADD_MEAT"]:
            return None
        c["meat_summed_consumption"] = float(c["meat_summed_consumption"]) + delta
        return c, tc, "up"
    if k == "milk":
        a = _arr(tc["milk_kcals"])
        a[m] += delta
        tc["milk_kcals"] = a
        return c, tc, "up"
    if k == "fish":
        a = _arr(tc["fish"].to_humans.kcals)
        a[m] += delta
        tc["fish"].to_humans.kcals = a
        return c, tc, "up"
    if k == "greenhouse":
        a = _arr(tc["greenhouse_crops"].kcals)
        a[m] += delta
        tc["greenhouse_crops"].kcals = a
        return c, tc, "up"
    if k in ("scp", "cs"):
        key, flag = ("methane_scp", "ADD_METHANE_SCP") if k == "scp" else ("cellulosic_sugar", "ADD_CELLULOSIC_SUGAR")
        if not c[flag]:
            return None
        a = _arr(tc[key].kcals)
        a[m] += delta
        tc[key].kcals = a
        return c, tc, "up"
    if k == "seaweed_area":
        if not c["ADD_SEAWEED"]:
            return None
        tc["built_area"] = _arr(tc["built_area"]) * (1 + p["amount"])
        return c, tc, "up"
    if k == "waste":
        w = c["inputs"]["WASTE_RETAIL"]
        if w <= 0:
            return None
        nw = w * max(0.0, 1 - p["amount"] / 2.0)
        c["inputs"]["WASTE_RETAIL"] = nw
        for key in ("STORED_FOOD_WASTE_RETAIL", "CROP_WASTE_RETAIL", "MEAT_WASTE_RETAIL", "SCP_RETAIL_WASTE", "CELL_SUGAR_RETAIL_WASTE", "SEAWEED_WASTE_RETAIL"):
            c[key] = nw
        return c, tc, "up"
    if k == "waste_one":
        # each food's retail waste is a separate input of the optimiser: lower one of them on its own
        present = [(key, flag) for key, flag in WASTE_KEYS if c[flag]]
        if not present:
            return None
        key, _ = present[p["month"] % len(present)]
        if c[key] <= 0:
            return None
        c[key] = c[key] * max(0.0, 1 - p["amount"] / 2.0)
        return c, tc, "up"
    if k in ("feed_charge", "biofuel_charge"):
        if not any(c[x] for x in ("ADD_STORED_FOOD", "ADD_OUTDOOR_GROWING", "ADD_SEAWEED", "ADD_CELLULOSIC_SUGAR", "ADD_METHANE_SCP")):
            return None
        key = "feed" if k == "feed_charge" else "biofuel"
        a = _arr(tc[key].kcals)
        a[m] += delta
        tc[key].kcals = a
        tc["nonhuman_consumption"] = tc["feed"] + tc["biofuel"]
        return c, tc, "down"
    if k == "scale":
        s = p["scale"]
        c["POP"] = c["POP"] * s
        c["POP_BILLIONS"] = c["POP_BILLIONS"] * s
        c["BILLION_KCALS_NEEDED"] = need * s
        if c["ADD_STORED_FOOD"]:
            c["stored_food"].initial_available.kcals = float(np.atleast_1d(_arr(c["stored_food"].initial_available.kcals))[0]) * s
        tc["outdoor_crops"].production.kcals = _arr(tc["outdoor_crops"].production.kcals) * s
        a = _arr(tc["each_month_meat_slaughtered"].kcals) * s
        tc["each_month_meat_slaughtered"].kcals = a
        tc["max_consumed_culled_kcals_each_month"] = _arr(tc["max_consumed_culled_kcals_each_month"]) * s
        c["meat_summed_consumption"] = float(c["meat_summed_consumption"]) * s
        tc["milk_kcals"] = _arr(tc["milk_kcals"]) * s
        tc["fish"].to_humans.kcals = _arr(tc["fish"].to_humans.kcals) * s
        tc["greenhouse_crops"].kcals = _arr(tc["greenhouse_crops"].kcals) * s
        tc["methane_scp"].kcals = _arr(tc["methane_scp"].kcals) * s
        tc["cellulosic_sugar"].kcals = _arr(tc["cellulosic_sugar"].kcals) * s
        tc["built_area"] = _arr(tc["built_area"]) * s
        c["INITIAL_SEAWEED"] = c["INITIAL_SEAWEED"] * s
        c["INITIAL_BUILT_SEAWEED_AREA"] = c["INITIAL_BUILT_SEAWEED_AREA"] * s
        tc["feed"].kcals = _arr(tc["feed"].kcals) * s
        tc["biofuel"].kcals = _arr(tc["biofuel"].kcals) * s
        tc["nonhuman_consumption"] = tc["feed"] + tc["biofuel"]
        return c, tc, "same"
    raise RuntimeError(k)


def solve(c, tc):
    from src.optimizer.optimizer import Optimizer
    try:
        with quiet():
            return float(Optimizer(c, tc).optimize_to_humans(c, tc)[3])
    except AssertionError:
        return None


def run_case(ctx, iso3, options, perts, title):
    r = model.run_case(iso3, options, title=title)
    if not r["ok"]:
        ctx.abort("%s@%s" % (r["exc_type"], r["exc_frame"]))
        return
    humans = [cap for cap in r["cap"].opt if cap["type"] == "to_humans"]
    ctx.sample(dict(iso3=iso3, options={k: options[k] for k in ("scenario", "ratio_stocks_untouched", "shutoff", "NMONTHS")},
                    perturbations=[{k: p[k] for k in ("kind", "month", "amount", "scale")} for p in perts][:3],
                    base_optima=[h["obj"] for h in humans]), limit=3)
    for j, p in enumerate(perts):
        which = j % len(humans)
        judge(ctx, iso3, options, which, humans[which], p)
    # every food's own retail-waste constant, lowered on its own, on the no-feed instance (cheap and systematic)
    c0 = humans[0]["consts"]
    present = [i for i, (key, flag) in enumerate(k for k in WASTE_KEYS if c0[k[1]])]
    for i in present:
        judge(ctx, iso3, options, 0, humans[0], dict(kind="waste_one", month=i, amount=perts[0]["amount"] if perts else 0.5, scale=1.0))


def judge(ctx, iso3, options, which, cap, p):
    c, tc, pf = cap["consts"], cap["tc"], float(cap["obj"])
    out = apply(c, tc, p)
    if out is None:
        ctx.event("not_applicable_" + p["kind"])
        return
    ctx.count()
    c2, tc2, direction = out
    pf2 = solve(c2, tc2)
    case = dict(kind="perturb", iso3=iso3, options=options, which=which, perturbation=p)
    seaweed = bool(c["ADD_SEAWEED"])
    tol = (TOL_LOOSE if (seaweed or direction == "same") else TOL) * max(1.0, abs(pf))
    ctx.event("kind_" + p["kind"])
    what = "%s %s lp#%d %s(month %d, amount %.4g, scale %.4g): base %.9g -> %s" % (
        iso3, options.get("scenario"), which, p["kind"], p["month"] % c["NMONTHS"], p["amount"], p["scale"], pf, "%.9g" % pf2 if pf2 is not None else "not solved")
    if pf2 is None:
        if direction == "down":
            ctx.event("tightening_infeasible(no increase)")
            return
        if direction == "same":
            ctx.abort("scaled_instance_not_solved")
            return
        # which stage failed?  The property speaks of the optimum: if the FIRST-stage programme of the relaxed instance is solvable and
        # attains at least the base value (its matrix handed to HiGHS), the optimum did not decrease; that one of the model's later
        # tie-breaking solves then gives up on this (perturbed, never pipeline-produced) instance is the fragility C16 judges on real presets
        from checks.c02 import own_programme
        own = own_programme(c2, tc2, "to_humans")[0]
        if own is not None and own >= pf - tol:
            ctx.abort("later_stage_solve_fails_on_perturbed_instance")
            return
        ctx.fail("relaxation-makes-programme-unsolvable:" + p["kind"], what + "; first-stage programme by HiGHS: %r" % own, case)
        return
    moved = abs(pf2 - pf) > tol
    if moved or (p["kind"] == "scale" and not (0.5 <= p["scale"] <= 2)):
        ctx.nontrivial_case(canon_hash([iso3, options, which, p]))
    ctx.residual("scale_rel" if direction == "same" else "wrong_direction_rel",
                 (abs(pf2 - pf) if direction == "same" else max(0.0, (pf - pf2) if direction == "up" else (pf2 - pf))) / max(1.0, abs(pf)))
    bad = (direction == "up" and pf2 < pf - tol) or (direction == "down" and pf2 > pf + tol) or (direction == "same" and abs(pf2 - pf) > tol)
    if not bad:
        return
    # is it the recorded CBC finding (a sub-optimal solution reported as optimal) rather than the formulation?
    alt_base, alt_new = resolve_model_lp(c, tc, "to_humans"), resolve_model_lp(c2, tc2, "to_humans")

    def related(a, b):
        return (direction == "up" and b >= a - tol) or (direction == "down" and b <= a + tol) or (direction == "same" and abs(b - a) <= tol)
    if alt_base is None or alt_new is None or not related(alt_base, alt_new):
        # CBC with other settings does not always recover either: hand the model's own two programmes to HiGHS
        from checks.c02 import own_programme
        own_base, own_new = own_programme(c, tc, "to_humans")[0], own_programme(c2, tc2, "to_humans")[0]
        if own_base is not None and own_new is not None and related(own_base, own_new):
            alt_base, alt_new = own_base, own_new
    if alt_base is not None and alt_new is not None:
        ok = (direction == "up" and alt_new >= alt_base - tol) or (direction == "down" and alt_new <= alt_base + tol) or \
             (direction == "same" and abs(alt_new - alt_base) <= tol)
        if ok and (abs(alt_base - pf) > tol / 2 or abs(alt_new - pf2) > tol / 2):
            ctx.fail("cbc-default-solve-returns-suboptimal-solution",
                     what + "; with presolve off / primal simplex the two programmes give %.9g and %.9g" % (alt_base, alt_new), case)
            return
    sig = {"up": "more-supply-feeds-fewer-people:", "down": "higher-charge-feeds-more-people:", "same": "common-scale-factor-changes-percent-fed:"}[direction]
    ctx.fail(sig + p["kind"], what, case)


def shard(ctx):
    thorough = ctx.tier == "thorough"

    def body(case):
        (iso3, options), perts = case
        run_case(ctx, iso3, options, perts, "c12_%d_%d" % (ctx.shard, ctx.evaluations))
    drive(ctx, st.tuples(case_strategy(), st.lists(perturbation(), min_size=6, max_size=6)), body, 60 if thorough else 8, shrink=False, tag="runs")
    # the extreme rows of the input table (smallest and largest populations: population-dependent branches and absolute tolerances sit
    # there) and the world run, each with common scale factors across the generator's range (0.01 .. 10: the largest rows cross 1e9 and 1e8 going down), on EVERY human round
    scales = [dict(kind="scale", month=0, amount=0.1, scale=f) for f in (0.01, 0.1, 0.5, 10.0)]   # the generator's range
    more = [dict(kind="meat_stock", month=0, amount=0.5, scale=1.0), dict(kind="feed_charge", month=1, amount=0.5, scale=1.0)]
    cases = model.extreme_cases(shutoff="continued") + [("WOR", dict(model.BASELINE_COUNTRY, scale="global", seasonality="nuclear_winter_globally",
                                                  waste="baseline_globally", grasses="global_nuclear_winter", crop_disruption="global_nuclear_winter",
                                                  fish="nuclear_winter", scenario="all_resilient_foods", shutoff="continued", NMONTHS=72))]

    # ... and the largest rows once more with an undisturbed climate, where the final round does carry a feed and biofuel charge
    big = model.extreme_rows()[-1]
    cases += [(big, dict(model.BASELINE_COUNTRY, shutoff="continued", NMONTHS=48)),
              ("WOR", dict(model.BASELINE_COUNTRY, scale="global", seasonality="baseline_globally", waste="baseline_globally", shutoff="continued", NMONTHS=48))]

    def fixed(iso, o, k):
        r = model.run_case(iso, o, title="c12x_%s" % iso)
        if not r["ok"]:
            ctx.abort("%s@%s" % (r["exc_type"], r["exc_frame"]))
            return
        humans = [cap for cap in r["cap"].opt if cap["type"] == "to_humans"]
        for which, cap in enumerate(humans):
            for p in scales + more:
                judge(ctx, iso, o, which, cap, p)
    model.run_fixed(ctx, cases, fixed)


def replay(case, ctx):
    r = model.run_case(case["iso3"], case["options"], title="c12_replay")
    humans = [cap for cap in r["cap"].opt if cap["type"] == "to_humans"]
    judge(ctx, case["iso3"], case["options"], case["which"], humans[case["which"]], case["perturbation"])
