"""C16 — every country completes under every documented preset."""
import contextlib
import copy
import hashlib
import io
import json
import os
import re

import numpy as np

from vlib import model, workspace
from vlib.harness import Violation, canon_hash

PROPERTY = "C16"
RULE = ("finite grid: 164 countries x presets, where presets = the 13 simulations of the shipped YAML files (scenarios/*.yaml, loaded with the "
        "repository's own loader), the manuscript presets extracted from plot_manuscript_figures.py by calling its recalculate_plot_* with the "
        "two runner functions replaced by recorders, and single-option variations of three of them (each family set to each other documented "
        "value); world-scale presets run at world scale.  Quick: every (country, preset) pair exactly as shipped plus a seeded sample of grid "
        "cells; thorough: the whole grid (exhaustive).  A cell passes if the run returns, none of the model's validators or solver-status "
        "assertions fires and percent fed is finite and >= 0.  Every completed non-identical cell is non-trivial; distinct by (iso3, preset id).")
ASSUMPTIONS = ["a failure on the unchanged tree is a genuine finding and is recorded per (country, preset, exception type, innermost project frame)"]
EXHAUSTIVE = {"quick": False, "thorough": True}
GRID = None


def slug(s):
    return re.sub(r"[^a-z0-9]+", "_", s.lower()).strip("_")[:40]


def yaml_presets():
    from src.scenarios.run_scenarios_from_yaml import load_config_data
    out, shipped = [], []
    for fn in sorted(os.listdir("scenarios")):
        if not fn.endswith(".yaml"):
            continue
        cfg = load_config_data(fn)
        countries = cfg["settings"].get("countries", [])
        countries = [countries] if isinstance(countries, str) else list(countries)
        for name, sim in cfg["simulations"].items():
            o = dict(sim)
            o["NMONTHS"] = cfg["settings"]["NMONTHS"]
            pid = "yaml:%s:%s" % (fn, name)
            out.append((pid, o))
            for c in countries:
                shipped.append((c, pid))
    return out, shipped


def manuscript_presets():
    rec = []
    with contextlib.redirect_stdout(io.StringIO()):
        import plot_manuscript_figures as pm

    def rec_country(this_simulation, title, countries_list=[], figure_save_postfix="", return_results=False):
        rec.append(("country", title, copy.deepcopy(this_simulation)))
        return [None, 1.0, 1.0, {}]

    class Dummy:
        percent_people_fed = 50.0

        def __getattr__(self, k):
            return Dummy()

    def rec_global(this_simulation, title):
        rec.append(("global", title, copy.deepcopy(this_simulation)))
        return Dummy()
    pm.call_scenario_runner, pm.call_global_scenario_runner = rec_country, rec_global
    for fn in ("recalculate_plot_1", "recalculate_plot_2", "recalculate_plot_3", "recalculate_plot_s1"):
        for flag in (True, False):
            try:
                pm.RUN_FIGURE_1_AND_3_WITH_BASELINE_CLIMATE = flag
                with contextlib.redirect_stdout(io.StringIO()):
                    getattr(pm, fn)()
            except BaseException:
                pass     # the plotting code after the recorded calls needs real results
    out, seen = [], set()
    for scale, title, o in rec:
        k = json.dumps(o, sort_keys=True, default=str)
        if k in seen:
            continue
        seen.add(k)
        out.append(("ms:%s:%s:%s" % (scale, slug(title), hashlib.sha1(k.encode()).hexdigest()[:6]), o))
    return out


def variations(bases):
    out = []
    for pid, o in bases:
        fam = model.COUNTRY_FAMILIES
        for k in sorted(fam):
            for v in fam[k]:
                if o.get(k) == v:
                    continue
                out.append(("var:%s:%s=%s" % (pid.split(":")[-1], k, v), dict(o, **{k: v})))
    return out


def build_grid():
    yp, shipped = yaml_presets()
    mp = manuscript_presets()
    country_ms = [(p, o) for p, o in mp if o.get("scale") == "country"]
    bases = [yp[0]] + [x for x in yp if "nuclear_resilient" in x[0]][:1] + country_ms[:1]
    vp = variations(bases)
    presets = dict(yp + mp + vp)
    return presets, shipped


def prepare(tier):
    global GRID
    GRID = build_grid()
    # the enumeration itself must not silently shrink (a recorder that swallows an exception would leave fewer presets to run)
    presets, shipped = GRID
    kinds = {k: sum(1 for p in presets if p.startswith(k + ":")) for k in ("yaml", "ms", "var")}
    if kinds["yaml"] < 13 or kinds["ms"] < 32 or kinds["var"] < 90 or len(shipped) < 30:
        raise RuntimeError("preset enumeration shrank: %r, %d shipped (country, preset) pairs" % (kinds, len(shipped)))


class Canary:
    """'with all of the model's built-in validation checks passing' presupposes that they ran: count the calls of the validator's entry
    point and of the solver wrapper (which asserts the solver status) during a cell; the per-constraint re-check is switched off in the model itself"""
    NAMES = (("src.optimizer.validate_results", "Validator", "validate_results"),
             ("src.optimizer.optimizer", "Optimizer", "run_optimizations_on_constraints"))

    def __enter__(self):
        import importlib
        self.calls, self.saved = {}, []
        for mod, cls, fn in self.NAMES:
            klass = getattr(importlib.import_module(mod), cls)
            orig = getattr(klass, fn)
            self.saved.append((klass, fn, orig))
            self.calls[fn] = 0

            def make(orig=orig, fn=fn):
                def w(*a, **k):
                    self.calls[fn] += 1
                    return orig(*a, **k)
                return w
            setattr(klass, fn, make())
        return self

    def __exit__(self, *exc):
        for klass, fn, orig in self.saved:
            setattr(klass, fn, orig)
        return False


def run_cell(ctx, iso3, pid, options):
    ctx.count()
    key = "%s|%s" % (iso3, pid)
    o = copy.deepcopy(options)
    snap = copy.deepcopy(o)
    with Canary() as canary:
        r = model.run_case("WOR" if o.get("scale") == "global" else iso3, o, title="c16_%d" % ctx.shard, capture=False, share_options=True)
    if r["ok"]:
        idle = [fn for fn, n in canary.calls.items() if n == 0]
        if idle:
            ctx.fail("run-completes-without-running-its-validation:" + ",".join(idle), "%s under %s: never called: %s" % (iso3, pid, idle),
                     dict(kind="cell", iso3=iso3, preset=pid, options=options))
    ctx.event("preset_" + pid.split(":")[0])
    if o != snap:
        ctx.fail("preset-dictionary-modified-by-the-run", key, dict(kind="cell", iso3=iso3, preset=pid, options=options))
    if not r["ok"]:
        sig = "run-fails:%s:%s:%s:%s" % (iso3, pid, r["exc_type"], r["exc_frame"])
        ctx.fail(sig, "%s under %s: %s at %s: %s" % (iso3, pid, r["exc_type"], r["exc_frame"], r["exc_msg"][:120]),
                 dict(kind="cell", iso3=iso3, preset=pid, options=options))
        return
    pf = r["result"].percent_people_fed
    if not np.isfinite(pf) or pf < 0:
        ctx.fail("percent-fed-not-finite-non-negative:%s:%s" % (iso3, pid), "%r" % pf, dict(kind="cell", iso3=iso3, preset=pid, options=options))
    ctx.nontrivial_case(key)
    ctx.sample(dict(iso3=iso3, preset=pid, percent_fed=float(pf)), limit=4)


def shard(ctx):
    presets, shipped = GRID
    isos = model.iso3_list()
    cells = []
    if ctx.tier == "thorough":
        for pid in sorted(presets):
            if presets[pid].get("scale") == "global":
                cells.append(("WOR", pid))
            else:
                cells += [(i, pid) for i in isos]
    else:
        cells = [(c, p) for c, p in shipped if c in isos]
        cells += [("WOR", p) for p in sorted(presets) if presets[p].get("scale") == "global"]
        # the three countries for which the loader rewrites known-bad combinations: every preset that can hit such a rule
        risky = [p for p in sorted(presets) if presets[p].get("scale") != "global" and presets[p].get("scenario") not in ("no_resilient_foods",)
                 and presets[p].get("shutoff") in ("continued", "long_delayed_shutoff", "short_delayed_shutoff")]
        cells += [(i, p) for i in ("SLV", "ALB", "ECU") for p in risky[::3]]
        # every recorded finding is re-checked on every run (it must still fail in exactly the recorded way, and is reported)
        for sig in sorted(ctx.findings):
            parts = sig.split(":")
            pid = ":".join(parts[2:-3])
            if parts[0] == "run-fails" and pid in presets and (parts[1], pid) not in cells:
                cells.append((parts[1], pid))
        rest = [(i, p) for p in sorted(presets) if presets[p].get("scale") != "global" for i in isos]
        rng = np.random.RandomState(ctx.seed)      # seeded sample of the remaining grid (finite domain; not a property-level RNG)
        pick = rng.choice(len(rest), size=min(len(rest), 250), replace=False)
        cells += [rest[k] for k in sorted(pick)]
    for n, (iso, pid) in enumerate(cells):
        if n % ctx.nshards != ctx.shard:
            continue
        try:
            run_cell(ctx, iso, pid, presets[pid])
        except Violation as v:
            ctx.record_violation_all(v) if hasattr(ctx, "record_violation_all") else ctx.record_violation(v)
            ctx._last_violation = None


def replay(case, ctx):
    run_cell(ctx, case["iso3"], case["preset"], case["options"])
