"""Shared check runner: shards, Hypothesis driving, findings, replay files, evidence.

Contract of a check module ``checks/cNN.py``:

    PROPERTY = "C09"
    RULE = "<how cases are generated and what makes one non-trivial>"
    ASSUMPTIONS = [...]
    NSHARDS = 16                       # optional
    def shard(ctx) -> None             # explore; record into ctx (a ShardCtx)
    def replay(case, ctx) -> None      # re-run exactly one saved case; record into ctx

Inside ``shard`` a check calls ``ctx.case(...)`` bookkeeping helpers and ``ctx.fail(...)`` when the
oracle disagrees.  ``ctx.fail`` consults the committed known-findings list: a listed signature is
counted and the search goes on; an unlisted one raises ``Violation`` so Hypothesis can shrink it.
"""
import contextlib
import hashlib
import io
import json
import multiprocessing as mp
import os
import sys
import time
import traceback
from collections import Counter

VERIF = os.path.dirname(os.path.dirname(os.path.abspath(__file__)))
EVIDENCE_DIR = os.path.join(VERIF, "evidence")
REPLAY_DIR = os.path.join(VERIF, "replay")
FINDINGS_FILE = os.path.join(VERIF, "known_findings.json")


class Violation(AssertionError):
    def __init__(self, sig, what, case):
        super().__init__("%s: %s" % (sig, what))
        self.sig, self.what, self.case = sig, what, case


class HarnessError(RuntimeError):
    pass


def jsonable(o):
    import numpy as np
    if isinstance(o, dict):
        return {str(k): jsonable(v) for k, v in o.items()}
    if isinstance(o, (list, tuple, set, frozenset)):
        return [jsonable(v) for v in o]
    if isinstance(o, np.ndarray):
        return [jsonable(v) for v in o.tolist()]
    if isinstance(o, (np.floating,)):
        return float(o)
    if isinstance(o, (np.integer,)):
        return int(o)
    if isinstance(o, (np.bool_,)):
        return bool(o)
    if isinstance(o, float):
        if o != o:
            return "nan"
        if o in (float("inf"), float("-inf")):
            return "inf" if o > 0 else "-inf"
        return o
    if isinstance(o, (str, int, bool)) or o is None:
        return o
    return repr(o)


def canon_hash(o):
    return hashlib.sha256(json.dumps(jsonable(o), sort_keys=True).encode()).hexdigest()[:16]


def load_findings(prop):
    """known findings (suppress + report) and fixed entries (suppress nothing) for a property"""
    if not os.path.exists(FINDINGS_FILE):
        return {}
    data = json.load(open(FINDINGS_FILE))
    out = {}
    for f in data.get("known_findings", []):
        if f["property"] == prop:
            out[f["signature"]] = f
    return out


class ShardCtx:
    def __init__(self, prop, tier, seed, shard, nshards, findings):
        self.prop, self.tier, self.seed, self.shard, self.nshards = prop, tier, seed, shard, nshards
        self.findings = findings
        self.evaluations = 0
        self.nontrivial = set()
        self.classes = Counter()
        self.samples = []
        self.known_hits = Counter()
        self.known_examples = {}
        self.violations = []          # list of dict(sig, what, case)
        self.aborted = Counter()
        self.maxres = {}
        self.notes = []
        self._last_violation = None

    # ---- bookkeeping -------------------------------------------------------------------
    def count(self, n=1):
        self.evaluations += n

    def event(self, name, n=1):
        self.classes[name] += n

    def nontrivial_case(self, key):
        self.nontrivial.add(key if isinstance(key, str) else canon_hash(key))

    def sample(self, case, limit=4):
        if len(self.samples) < limit:
            self.samples.append(jsonable(case))

    def residual(self, name, value):
        try:
            v = float(value)
        except Exception:
            return
        if v == v and v > self.maxres.get(name, -1.0):
            self.maxres[name] = v

    def abort(self, name):
        self.aborted[name] += 1

    # ---- oracle verdicts ---------------------------------------------------------------
    def fail(self, sig, what, case):
        """the oracle disagrees on `case`; `sig` names the root cause"""
        if sig in self.findings:
            self.known_hits[sig] += 1
            self.known_examples.setdefault(sig, what)
            return True
        v = Violation(sig, what, jsonable(case))
        self._last_violation = v
        raise v

    def record_violation(self, v):
        if not any(x["sig"] == v.sig for x in self.violations):
            self.violations.append(dict(sig=v.sig, what=v.what, case=v.case))

    def export(self):
        return dict(evaluations=self.evaluations, nontrivial=sorted(self.nontrivial), classes=dict(self.classes),
                    samples=self.samples, known_hits=dict(self.known_hits), known_examples=self.known_examples,
                    violations=self.violations, aborted=dict(self.aborted), maxres=self.maxres, notes=self.notes)


def hyp_settings(max_examples, shrink=True, stateful_steps=None):
    from hypothesis import settings, HealthCheck, Phase
    phases = [Phase.explicit, Phase.generate] + ([Phase.shrink] if shrink else [])
    kw = dict(max_examples=max_examples, deadline=None, database=None, derandomize=False,
              report_multiple_bugs=False, phases=phases, print_blob=False,
              suppress_health_check=list(HealthCheck))
    if stateful_steps is not None:
        kw["stateful_step_count"] = stateful_steps
    return settings(**kw)


def drive(ctx, strategy, body, max_examples, shrink=True, tag="", count=True):
    """Run ``body(case)`` over ``strategy`` under Hypothesis with the shard's seed.
    An unlisted failure is shrunk (if ``shrink``) and recorded in ctx.violations; the exploration of this
    sub-check then stops (Hypothesis stops at the first failure)."""
    import hypothesis
    from hypothesis import given

    seed = (ctx.seed * 1000 + ctx.shard) * 131 + (int(hashlib.sha256(tag.encode()).hexdigest(), 16) % 97)

    calls = [0]

    @hypothesis.seed(seed)
    @hyp_settings(max_examples + (1 if ctx.shard > 0 else 0), shrink=shrink)
    @given(strategy)
    def test(case):
        calls[0] += 1
        if calls[0] == 1 and ctx.shard > 0 and ctx._last_violation is None:
            return   # Hypothesis always starts with the all-simplest example: run it in shard 0 only, not 16 times
        if count:
            ctx.count()
        body(case)

    try:
        test()
    except Violation as v:
        # Hypothesis re-raises the minimal failing example's exception last
        ctx.record_violation(ctx._last_violation or v)
    except BaseException as e:  # harness or generator error: do not turn into pass or violation
        if isinstance(e, (KeyboardInterrupt, SystemExit)):
            raise
        lv = ctx._last_violation
        if lv is not None and (_caused_by_violation(e) or _is_flaky(e)):
            ctx.record_violation(lv)
        else:
            raise


def _caused_by_violation(e, depth=0):
    """a Violation anywhere in the exception's cause / context chain or, for Hypothesis' exception groups (flaky or multiple
    failures: the defect depends on state that outlives one example), among its members"""
    if e is None or depth > 12:
        return False
    if isinstance(e, Violation):
        return True
    for sub in getattr(e, "exceptions", ()) or ():
        if _caused_by_violation(sub, depth + 1):
            return True
    return _caused_by_violation(e.__cause__, depth + 1) or _caused_by_violation(e.__context__, depth + 1)


@contextlib.contextmanager
def collecting(ctx):
    """run a Hypothesis-driven block: a Violation (also one wrapped by Hypothesis in a flaky-failure / exception group) is recorded as the
    shard's violation; any other exception is a harness error and propagates"""
    try:
        yield
    except Violation as v:
        ctx.record_violation(ctx._last_violation or v)
    except BaseException as e:
        if isinstance(e, (KeyboardInterrupt, SystemExit)):
            raise
        if ctx._last_violation is not None and (_caused_by_violation(e) or _is_flaky(e)):
            ctx.record_violation(ctx._last_violation)
        else:
            raise


def _is_flaky(e):
    """Hypothesis found that an example behaved differently when run again (Flaky, FlakyFailure, FlakyStrategyDefinition): with an oracle
    Violation on record that is what a defect looks like whose state outlives one example"""
    try:
        from hypothesis.errors import Flaky
    except Exception:
        return False
    return isinstance(e, Flaky)


@contextlib.contextmanager
def quiet():
    """silence the model's prints (stdout only)"""
    buf = io.StringIO()
    with contextlib.redirect_stdout(buf):
        yield buf


# ---------------------------------------------------------------------------------------------
def _run_shard(args):
    modname, tier, seed, shard, nshards, mode, payload = args
    import importlib
    t0 = time.time()
    mod = importlib.import_module(modname)
    ctx = ShardCtx(mod.PROPERTY, tier, seed, shard, nshards, load_findings(mod.PROPERTY))
    try:
        if mode == "replay":
            try:
                mod.replay(payload, ctx)
            except Violation as v:
                ctx.record_violation(v)
        elif mode == "fuzz":
            from vlib import fuzz
            out = fuzz.run_worker(modname, tier, seed, shard, nshards, payload[0], payload[1])
            out["error"] = None
            out["wall"] = time.time() - t0
            return out
        else:
            mod.shard(ctx)
        out = ctx.export()
        out["error"] = None
    except BaseException:
        out = ctx.export()
        out["error"] = traceback.format_exc()
    out["wall"] = time.time() - t0
    return out


def run_check(modname, argv=None):
    """entry point used by check.py"""
    import argparse
    import importlib
    ap = argparse.ArgumentParser()
    ap.add_argument("--tier", default=os.environ.get("VERIF_TIER", "quick"), choices=["quick", "thorough"])
    ap.add_argument("--replay", default=None)
    ap.add_argument("--shards", type=int, default=None)
    ap.add_argument("--no-evidence", action="store_true")
    a = ap.parse_args(argv)
    if a.replay:
        a.replay = os.path.abspath(a.replay)
    try:
        seed = int(os.environ.get("VERIF_SEED", "1"))
    except ValueError:
        seed = 1
    t0 = time.time()
    fuzz_note = None
    from vlib import workspace
    try:
        workspace.prepare()
        mod = importlib.import_module(modname)
        prop = mod.PROPERTY
        if hasattr(mod, "prepare"):
            mod.prepare(a.tier)
        nshards = a.shards or getattr(mod, "NSHARDS", 16)
        if a.replay:
            case = json.load(open(a.replay))
            jobs = [(modname, a.tier, seed, 0, 1, "replay", case.get("case", case))]
        else:
            jobs = [(modname, a.tier, seed, k, nshards, "explore", None) for k in range(nshards)]
            # the committed replay corpus is a regression tier in front of every run
            rdir = os.path.join(REPLAY_DIR, prop)
            if os.path.isdir(rdir):
                for fn in sorted(os.listdir(rdir)):
                    if fn.endswith(".json"):
                        case = json.load(open(os.path.join(rdir, fn)))
                        jobs.append((modname, a.tier, seed, 1000 + len(jobs), 1, "replay", case.get("case", case)))
            # coverage-guided tier (atheris / libFuzzer through Hypothesis' fuzz_one_input) for the checks that opt in
            targets = getattr(mod, "FUZZ_TARGETS", {})
            if targets:
                from vlib import fuzz
                if fuzz.ensure_atheris():
                    for name, (_b, qruns, truns, workers) in sorted(targets.items()):
                        runs = truns if a.tier == "thorough" else qruns
                        for w in range(workers if runs else 0):
                            jobs.append((modname, a.tier, seed, 2000 + len(jobs), workers, "fuzz", (name, runs)))
                else:
                    fuzz_note = "coverage-guided tier skipped: atheris could not be imported or installed from /opt/veriftools/wheels"
            if os.environ.get("VERIF_ONLY"):      # experiments only (e.g. VERIF_ONLY=fuzz): restrict the job kinds
                jobs = [j for j in jobs if j[5] == os.environ["VERIF_ONLY"]]
        ctxm = mp.get_context("fork")
        procs = min(len(jobs), int(os.environ.get("VERIF_PROCS", "16")))
        if procs <= 1:
            results = [_run_shard(j) for j in jobs]
        else:
            with ctxm.Pool(procs, maxtasksperchild=1) as pool:
                results = pool.map(_run_shard, jobs, chunksize=1)
    except BaseException:
        traceback.print_exc()
        print("HARNESS-ERROR property=%s" % modname)
        return 2

    errors = [r["error"] for r in results if r["error"]]
    if errors:
        for e in errors[:3]:
            sys.stderr.write(e + "\n")
        print("HARNESS-ERROR property=%s shards_failed=%d" % (prop, len(errors)))
        return 2

    # ---- merge -----------------------------------------------------------------------------
    evaluations = sum(r["evaluations"] for r in results)
    nontrivial = set()
    classes, known_hits, aborted = Counter(), Counter(), Counter()
    known_examples, maxres, samples, violations, notes = {}, {}, [], [], []
    for r in results:
        nontrivial.update(r["nontrivial"])
        classes.update(r["classes"])
        known_hits.update(r["known_hits"])
        aborted.update(r["aborted"])
        for k, v in r["known_examples"].items():
            known_examples.setdefault(k, v)
        for k, v in r["maxres"].items():
            maxres[k] = max(maxres.get(k, -1.0), v)
        for s in r["samples"]:
            if len(samples) < 5:
                samples.append(s)
        for v in r["violations"]:
            if not any(x["sig"] == v["sig"] for x in violations):
                violations.append(v)
        notes.extend(r["notes"])

    findings = load_findings(prop)
    for sig, n in sorted(known_hits.items()):
        print("KNOWN-FINDING: property=%s %s [%s] (hit %d times; e.g. %s)" %
              (prop, findings[sig].get("what", ""), sig, n, known_examples.get(sig, "")))
    rc = 0
    for v in violations:
        rc = 1
        os.makedirs(os.path.join(REPLAY_DIR, prop), exist_ok=True)
        path = os.path.join(REPLAY_DIR, prop, "viol-%s.json" % canon_hash([v["sig"], v["case"]]))
        if a.replay:
            path = a.replay
        else:
            json.dump(dict(property=prop, signature=v["sig"], what=v["what"], case=v["case"]),
                      open(path, "w"), indent=1, sort_keys=True)
        print("VIOLATION property=%s replay=%s  # %s: %s" % (prop, path, v["sig"], v["what"][:300]))

    wall = time.time() - t0
    if not a.no_evidence and not a.replay:
        os.makedirs(EVIDENCE_DIR, exist_ok=True)
        cov = dict(evaluations=int(evaluations), distinct_nontrivial=len(nontrivial), rule=mod.RULE,
                   samples=samples or [{"note": "no sample recorded"}],
                   classes=dict(sorted(classes.items())), aborted=dict(aborted),
                   known_finding_hits=dict(known_hits), max_residuals=maxres,
                   exhaustive=bool(getattr(mod, "EXHAUSTIVE", {}).get(a.tier, False)),
                   shards=len(jobs))
        if fuzz_note:
            notes.append(fuzz_note)
        if notes:
            cov["notes"] = notes[:40]
        ev = dict(property_id=prop, tier=a.tier, seed=seed, level="exploration", coverage=cov,
                  assumptions=list(getattr(mod, "ASSUMPTIONS", [])), wall_s=round(wall, 2), violations=len(violations))
        json.dump(jsonable(ev), open(os.path.join(EVIDENCE_DIR, prop + ".json"), "w"), indent=1, sort_keys=True)
    print("%s tier=%s seed=%d evaluations=%d distinct_nontrivial=%d known_finding_hits=%d aborted=%d violations=%d wall=%.1fs" %
          (prop, a.tier, seed, evaluations, len(nontrivial), sum(known_hits.values()), sum(aborted.values()),
           len(violations), wall))
    if maxres:
        print("  max residuals: " + ", ".join("%s=%.3g" % kv for kv in sorted(maxres.items())))
    if classes:
        print("  classes: " + ", ".join("%s=%d" % kv for kv in sorted(classes.items())))
    if rc == 0 and len(nontrivial) < 2 and not a.replay:
        print("HARNESS-ERROR property=%s fewer than 2 non-trivial cases: the run is vacuous" % prop)
        return 2
    return rc
