"""Hypothesis strategies shared by the checks (built by construction, no rejection sampling)."""
from hypothesis import strategies as st

from vlib import model


def magnitude(lo_exp, hi_exp):
    """positive float, log-uniform between 10**lo_exp and 10**hi_exp"""
    return st.floats(lo_exp, hi_exp, allow_nan=False).map(lambda e: float(10.0 ** e))


def ratio(hi=3.0):
    """disruption ratio with the interesting values boosted"""
    return st.sampled_from([0.0, 1.0, 1.0, 0.5, 0.05]) | st.floats(0.0, hi, allow_nan=False, allow_subnormal=False)


@st.composite
def seasonality(draw):
    kind = draw(st.sampled_from(["uniform", "dense", "sparse", "dense", "boundary"]))
    if kind == "uniform":
        return [1 / 12] * 12
    if kind == "boundary":
        # the first-year ratio branches on the share harvested after April being below 25 %: shares on both sides of that boundary, at
        # distances from 1e-4 to 6e-3 (never the tie itself, which rounding could send either way)
        after = 0.25 + draw(st.sampled_from([-6e-3, -4.5e-3, -2e-3, -1e-4, 1e-4, 2e-3, 4.5e-3, 6e-3]))
        head = draw(st.lists(st.floats(0.05, 1.0), min_size=4, max_size=4))
        tail = draw(st.lists(st.floats(0.05, 1.0), min_size=8, max_size=8))
        return [x / sum(head) * (1 - after) for x in head] + [x / sum(tail) * after for x in tail]
    if kind == "sparse":
        k = draw(st.integers(1, 3))
        idx = draw(st.lists(st.integers(0, 11), min_size=k, max_size=k, unique=True))
        w = [0.0] * 12
        for i in idx:
            w[i] = draw(st.floats(0.1, 1.0))
    else:
        w = draw(st.lists(st.floats(0.01, 1.0), min_size=12, max_size=12))
    s = sum(w)
    w = [x / s for x in w]
    return w


SMALL = None


def small_countries():
    """rows in the lowest decile of crop_kcals or population (quantisation, POP<1e7 branch)"""
    global SMALL
    if SMALL is None:
        t = model.country_table()
        q1 = t["crop_kcals"].quantile(0.12)
        q2 = t["population"].quantile(0.12)
        SMALL = t[(t["crop_kcals"] <= q1) | (t["population"] <= q2)]["iso3"].tolist()
    return SMALL


def country(small_bias=False):
    isos = model.iso3_list()
    if small_bias:
        return st.sampled_from(small_countries()) | st.sampled_from(isos)
    return st.sampled_from(isos)


@st.composite
def options(draw, scale="country", horizons=None, overrides=False, shutoff=None, threshold=False):
    fam = model.COUNTRY_FAMILIES if scale == "country" else model.GLOBAL_FAMILIES
    o = {k: draw(st.sampled_from(v)) for k, v in sorted(fam.items())}
    if shutoff is not None:
        o["shutoff"] = draw(st.sampled_from(shutoff))
    o.update(model.FIXED)
    o["scale"] = scale
    o["NMONTHS"] = draw(st.sampled_from(horizons or model.HORIZONS))
    if threshold and draw(st.booleans()):
        o["MINIMUM_PERCENT_FED_BEFORE_NONHUMAN_CONSUMPTION_ALLOWED"] = draw(
            st.sampled_from([0.0, 10.0, 50.0, 100.0]) | st.floats(0, 100).map(lambda x: round(x, 3)))
    if overrides:
        if draw(st.integers(0, 3)) == 0:
            o["RATIO_STOCKS_UNTOUCHED"] = draw(st.sampled_from([0.0, 1.0]) | st.floats(0, 1).map(lambda x: round(x, 4)))
        if draw(st.integers(0, 3)) == 0:
            o["CROP_PRODUCTION_MULTIPLIER"] = draw(st.floats(0, 3).map(lambda x: round(x, 4)))
        if draw(st.integers(0, 3)) == 0:
            o["GRASSES_PRODUCTION_MULTIPLIER"] = draw(st.floats(0, 3).map(lambda x: round(x, 4)))
        if draw(st.integers(0, 7)) == 0:
            # starting head count of one species (a column of the input table, documented numeric override)
            sp = draw(st.sampled_from(["meat_cattle", "milk_cattle", "chicken", "pig", "meat_sheep", "milk_goat", "rabbit", "camelids"]))
            o[sp + "_head"] = draw(st.sampled_from([0, 1000, 10**6, 10**8]))
        if draw(st.integers(0, 5)) == 0:
            o["kg_meat_per_large_animal"] = draw(st.sampled_from([0.0, 269.7]) | st.floats(0, 600).map(lambda x: round(x, 2)))
    return o
