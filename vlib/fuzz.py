"""Coverage-guided tier: the same property bodies that Hypothesis drives at random are driven by atheris / libFuzzer through
Hypothesis' ``fuzz_one_input`` (the fuzzer mutates the byte string the strategy is decoded from and is guided by line/branch coverage
of the model's own modules, which are the only ones instrumented).

A check opts in with

    FUZZ_TARGETS = {"name": (builder, quick_runs, thorough_runs, workers)}      # builder(ctx) -> (strategy, body)
    FUZZ_IMPORTS = ["src.food_system.animal_populations", ...]                 # model modules to instrument

Every worker is a fresh interpreter (so that the model is imported under instrumentation), started from the scratch copy of /repo's
working tree that the check has already made; it reports through a JSON file that it rewrites every few hundred executions (libFuzzer
ends the process itself, ``atexit`` does not run).  A Violation ends the worker at once; its case is the replay unit (fuzz failures are
not shrunk).  If atheris cannot be imported or installed from the offline wheelhouse the tier is skipped and the evidence says so.
"""
import importlib
import json
import os
import subprocess
import sys
import tempfile
import time

HERE = os.path.dirname(os.path.dirname(os.path.abspath(__file__)))
DEPS = os.path.join(HERE, ".deps")
WHEELS = "/opt/veriftools/wheels"


def ensure_atheris():
    """True if ``import atheris`` works in a child started with PYTHONPATH=DEPS (installing it there from the wheelhouse if needed)"""
    def ok():
        r = subprocess.run([sys.executable, "-c", "import atheris"], env=dict(os.environ, PYTHONPATH=DEPS), capture_output=True)
        return r.returncode == 0
    if ok():
        return True
    try:
        subprocess.run([sys.executable, "-m", "pip", "install", "-q", "--no-index", "--find-links", WHEELS, "--target", DEPS, "atheris"],
                       capture_output=True, timeout=300)
    except Exception:
        return False
    return ok()


def run_worker(modname, tier, seed, shard, nshards, target, runs):
    """parent side: start one fuzz worker in the current scratch copy and return its export dict"""
    from vlib import workspace
    out = tempfile.mkdtemp(prefix="fuzz-%s-%d-" % (target, shard), dir=os.path.dirname(workspace.scratch()))
    report = os.path.join(out, "report.json")
    env = dict(os.environ, PYTHONPATH=os.pathsep.join([workspace.scratch(), HERE, DEPS]), PYTHONHASHSEED="0")
    cmd = [sys.executable, "-m", "vlib.fuzz", modname, tier, str(seed), str(shard), str(nshards), target, str(runs), out]
    t0 = time.time()
    p = subprocess.run(cmd, cwd=workspace.scratch(), env=env, capture_output=True, text=True)
    if not os.path.exists(report):
        raise RuntimeError("fuzz worker %s/%s wrote no report (exit %d)\n%s\n%s" % (modname, target, p.returncode, p.stdout[-2000:], p.stderr[-3000:]))
    rep = json.load(open(report))
    if rep.get("error"):
        raise RuntimeError("fuzz worker %s/%s failed:\n%s" % (modname, target, rep["error"]))
    rep["notes"] = list(rep.get("notes", [])) + ["coverage-guided worker %s#%d: %d executions, %d decoded to a case, %.0f s, libFuzzer exit %d" %
                                                  (target, shard, rep.pop("executions", 0), rep.pop("decoded", 0), time.time() - t0, p.returncode)]
    import shutil
    shutil.rmtree(out, ignore_errors=True)
    return rep


def _child(argv):
    modname, tier, seed, shard, nshards, target, runs, out = argv
    seed, shard, nshards, runs = int(seed), int(shard), int(nshards), int(runs)
    report = os.path.join(out, "report.json")
    import traceback
    state = dict(executions=0, decoded=0)

    def dump(ctx, error=None):
        d = ctx.export() if ctx is not None else dict(evaluations=0, nontrivial=[], classes={}, samples=[], known_hits={}, known_examples={},
                                                      violations=[], aborted={}, maxres={}, notes=[])
        d.update(error=error, **state)
        from vlib.harness import jsonable
        tmp = report + ".tmp"
        json.dump(jsonable(d), open(tmp, "w"))
        os.replace(tmp, report)

    ctx = None
    try:
        import atheris
        from vlib import harness, workspace
        workspace._scratch, workspace._owner_pid = os.getcwd(), -1      # the parent's scratch copy; never cleaned up from here
        mod = importlib.import_module(modname)
        with atheris.instrument_imports(include=["src"], enable_loader_override=False):
            for m in getattr(mod, "FUZZ_IMPORTS", []):
                importlib.import_module(m)
        workspace.assert_src_is_scratch()
        ctx = harness.ShardCtx(mod.PROPERTY, tier, seed, shard, nshards, harness.load_findings(mod.PROPERTY))
        strategy, body = mod.FUZZ_TARGETS[target][0](ctx)
        from hypothesis import given

        @harness.hyp_settings(1, shrink=False)
        @given(strategy)
        def test(case):
            state["decoded"] += 1
            ctx.count()
            body(case)

        fuzz_one = test.hypothesis.fuzz_one_input

        def one(data):
            state["executions"] += 1
            try:
                fuzz_one(data)
            except harness.Violation as v:
                ctx.record_violation(ctx._last_violation or v)
                dump(ctx)
                os._exit(0)
            except BaseException:
                lv = ctx._last_violation
                if lv is not None:
                    ctx.record_violation(lv)
                    dump(ctx)
                else:
                    dump(ctx, traceback.format_exc())
                os._exit(0)
            if state["executions"] % 200 == 0 or state["executions"] >= runs - 1:
                dump(ctx)

        dump(ctx)
        corpus = os.path.join(out, "corpus")
        os.makedirs(corpus, exist_ok=True)
        # starting corpus: byte strings long enough to decode to a whole case (a short buffer is an overrun, i.e. no case at all);
        # deterministic pseudo-random bytes and all-zero buffers (the all-simplest case) of several lengths
        import hashlib
        for i, n in enumerate((64, 256, 1024, 4096, 8192, 8192, 8192)):
            blob = b"".join(hashlib.sha256(b"%d/%d/%d/%d" % (seed, shard, i, j)).digest() for j in range(n // 32 + 1))[:n]
            open(os.path.join(corpus, "seed-%d" % i), "wb").write(blob)
            open(os.path.join(corpus, "zero-%d" % i), "wb").write(bytes(n))
        atheris.Setup([sys.argv[0], "-runs=%d" % runs, "-seed=%d" % (seed * 1000 + shard + 1), "-max_len=8192", "-len_control=0",
                       "-artifact_prefix=" + out + os.sep, "-verbosity=0", "-print_final_stats=0", corpus], one)
        atheris.Fuzz()
    except SystemExit:
        raise
    except BaseException:
        dump(ctx, traceback.format_exc())


if __name__ == "__main__":
    _child(sys.argv[1:])
