"""Driving the herd simulation (animal_populations.main) directly, with the feeding step observed."""
import numpy as np

from vlib.harness import quiet

STRATEGIES = ["baseline", "reduced", "feed_only_ruminants"]
SPECIES = ["chicken", "rabbit", "duck", "goose", "turkey", "other_rodents", "pig", "meat_goat", "meat_sheep", "camelids",
           "meat_cattle", "meat_camel", "meat_buffalo", "mule", "horse", "asses", "milk_sheep", "milk_cattle", "milk_goat",
           "milk_camel", "milk_buffalo"]

_ready = False


def ensure_conversions():
    """Food arithmetic needs the process-wide conversion settings to exist (any values)"""
    global _ready
    if not _ready:
        from src.food_system.food import Food
        Food.conversions.set_nutrition_requirements(kcals_daily=2100, fat_daily=47, protein_daily=51,
                                                    include_fat=False, include_protein=False, population=1e7)
        _ready = True


def mkfood(vals):
    from src.food_system.food import Food
    v = np.array(vals, dtype=float)
    n = len(v)
    return Food(kcals=v, fat=np.zeros(n), protein=np.zeros(n), kcals_units="billion kcals each month",
                fat_units="thousand tons each month", protein_units="thousand tons each month")


def head_codes():
    import pandas as pd
    t = pd.read_csv("data/no_food_trade/animal_feed_data/FAOSTAT_head_and_slaughter.csv", index_col="iso3")
    return t


def kcals_dict(kg_pig=86.0, kg_chicken=1.65, kg_large=269.7):
    """per-head meat energy in billion kcals, from the documented constants (kg x kcal/kg)"""
    return {"KCALS_PER_CHICKEN": kg_chicken * 1525 / 1e9, "KCALS_PER_PIG": 3590 * kg_pig / 1e9,
            "KCALS_PER_SMALL_ANIMAL": 1525 * 2.36 / 1e9, "KCALS_PER_MEDIUM_ANIMAL": 3590 * 24.6 / 1e9,
            "KCALS_PER_LARGE_ANIMAL": 2750 * kg_large / 1e9}


_lsu = {}


def ref_need_per_head(code, species, livestock_unit):
    """documented net energy per head and month (billion kcals): tabulated livestock units x one livestock unit (29000 MJ net energy
    a year) x the regional factor of the country's FAO region for that species, read from the shipped tables"""
    import pandas as pd
    if not _lsu:
        d = "data/no_food_trade/animal_feed_data/"
        m = pd.read_csv(d + "FAO_country_region_mappings.csv")
        # the mapping lists some codes more than once (FRA: Mayotte, Guadeloupe, Martinique, France); the model takes the first row
        _lsu["region"] = {}
        for a3, r in zip(m["alpha3"], m["FAO-region-EK"]):
            _lsu["region"].setdefault(a3, r)
        t = pd.read_csv(d + "regional_conversion_factors.csv", index_col="animal")
        _lsu["factor"] = {(r, a): float(t[r][a] if not hasattr(t[r][a], "iloc") else t[r][a].iloc[-1]) for r in t.columns for a in t.index}
    # Eswatini: the model's country table says SWT, the FAO tables say SWZ (the herd model translates the code before any lookup)
    region = _lsu["region"].get("SWZ" if code == "SWT" else code, "Other")
    one_lsu = 29000.0 / 12 / 4.187 * 1000 / 1e9
    return livestock_unit * one_lsu * _lsu["factor"][(region, species)]


_attrs = {}


def species_attributes(animal_type):
    """(livestock units, slaughter hours, size class, digestion type) of a species as tabulated in the shipped species_attributes.csv"""
    import pandas as pd
    if not _attrs:
        t = pd.read_csv("data/no_food_trade/animal_feed_data/species_attributes.csv", index_col="animal")
        for a, row in t.iterrows():
            _attrs[a] = (float(row["LSU"]), float(row["animal_slaughter_hours"]), str(row["animal size"]), str(row["digestion type"]))
    return _attrs[animal_type]


class FeedLog:
    """wraps AnimalPopulation.feed_animals: inputs and outcomes of every monthly feeding"""

    def __init__(self):
        self.months = []

    def install(self):
        from src.food_system import animal_populations as ap
        self._ap = ap
        self._orig = ap.AnimalPopulation.feed_animals
        log = self

        def w(animal_list, ruminants, available_feed, available_grass):
            rec = dict(feed_in=float(available_feed.kcals), grass_in=float(available_grass.kcals),
                       species=[dict(type=a.animal_type, ruminant=(a in ruminants), herd=float(a.current_population),
                                     need_per_head=float(a.net_energy_required_per_month()), species_name=a.animal_species,
                                     lsu=float(a.livestock_unit),
                                     eff_grass=a.digestion_efficiency["grass"], eff_feed=a.digestion_efficiency["feed"])
                                for a in animal_list])
            out = log._orig(animal_list, ruminants, available_feed, available_grass)
            rec["feed_out"] = float(out[0].kcals)
            rec["grass_out"] = float(out[1].kcals)
            for r, a in zip(rec["species"], animal_list):
                r["fed"] = float(a.population_fed)
                r["owed"] = float(a.NE_balance.kcals)
            log.months.append(rec)
            return out
        ap.AnimalPopulation.feed_animals = w
        return self

    def uninstall(self):
        self._ap.AnimalPopulation.feed_animals = self._orig


def run_main(code, feed, grass, strategy, constants_inputs=None, kd=None, log=False):
    """animal_populations.main(..., remove_first_month=0); returns (animals, feed_used, grass_used, feedlog)"""
    ensure_conversions()
    from src.food_system import animal_populations as ap
    fl = FeedLog().install() if log else None
    try:
        with quiet():
            animals, fu, gu = ap.main(code, mkfood(feed), mkfood(grass), strategy, constants_inputs, 0,
                                      kd if kd is not None else kcals_dict())
    finally:
        if fl:
            fl.uninstall()
    return animals, np.asarray(fu.kcals, float), np.asarray(gu.kcals, float), fl


_req_cache = {}


def requirement(code, strategy):
    """gross feed energy (billion kcals/month at 0.8 efficiency) the initial herds would need"""
    key = (code, strategy)
    if key not in _req_cache:
        animals, _, _, _ = run_main(code, [0.0], [0.0], strategy)
        _req_cache[key] = sum(a.net_energy_required_per_month() * a.population[0] for a in animals) / 0.8
    return _req_cache[key]
