"""Physical audit of a solved allocation (C01), derived from the supplies, not from the model's constraint objects.

`cap` is one entry of Capture.opt: dict(type, consts, tc, vals, obj).  Returns a list of (signature, message, residual)
for every clause that is violated, plus a dict of the largest residual per clause (for calibration / evidence).
"""
import numpy as np

ATOL = 1e-5       # billion kcals (CBC primal tolerance 1e-7 on rows of size up to 1e2..1e6)
RTOL = 2e-6


def _a(x):
    return np.asarray(x, dtype=float)


def waste_factor(c):
    """people must draw 1/(1-retail waste) per unit eaten"""
    return 1.0 / (1.0 - c["inputs"]["WASTE_RETAIL"] / 100.0)


def supplies(c, tc):
    s = {}
    N = c["NMONTHS"]
    s["N"] = N
    sf = c["stored_food"].initial_available.kcals
    s["stored"] = float(np.atleast_1d(_a(sf))[0]) if c["ADD_STORED_FOOD"] else 0.0
    s["crops"] = _a(tc["outdoor_crops"].production.kcals) if c["ADD_OUTDOOR_GROWING"] else np.zeros(N)
    s["slaughter"] = _a(tc["each_month_meat_slaughtered"].kcals)
    s["scp"] = _a(tc["methane_scp"].kcals)
    s["cs"] = _a(tc["cellulosic_sugar"].kcals)
    s["built"] = _a(tc["built_area"])[:N]
    s["growth"] = _a(tc["growth_rates_monthly"])
    s["feed"] = _a(tc["feed"].kcals)
    s["biofuel"] = _a(tc["biofuel"].kcals)
    return s


def audit(cap):
    c, tc, v, typ = cap["consts"], cap["tc"], cap["vals"], cap["type"]
    s = supplies(c, tc)
    N = s["N"]
    w = waste_factor(c)
    carry = bool(c["STORE_FOOD_BETWEEN_YEARS"])
    human_round = typ == "to_humans"
    out, res = [], {}

    def tol(scale):
        return ATOL + RTOL * abs(scale)

    def exceed(name, lhs, rhs, scale=None, month=None):
        """lhs <= rhs"""
        lhs, rhs = _a(lhs), _a(rhs)
        d = lhs - rhs
        # the solver's feasibility tolerance is relative to the size of the row, i.e. to the largest quantity in the ledger
        sc = float(max(np.max(np.abs(rhs)), np.max(np.abs(lhs)))) if scale is None else scale
        bad = d > ATOL + RTOL * sc
        res[name] = max(res.get(name, 0.0), float(np.max(d)) if d.size else 0.0)
        if np.any(bad):
            m = int(np.argmax(d))
            out.append((name, "month %d: %.9g exceeds %.9g by %.6g" % (m, lhs.flat[m] if lhs.ndim else lhs, rhs.flat[m] if rhs.ndim else rhs, d.flat[m] if d.ndim else d), float(np.max(d))))

    def equal(name, lhs, rhs):
        lhs, rhs = _a(lhs), _a(rhs)
        d = np.abs(lhs - rhs)
        sc = float(max(np.max(np.abs(rhs)), np.max(np.abs(lhs))))
        res[name] = max(res.get(name, 0.0), float(np.max(d)) if d.size else 0.0)
        if np.any(d > ATOL + RTOL * sc):
            m = int(np.argmax(d))
            out.append((name, "month %d: %.9g differs from %.9g" % (m, lhs.flat[m] if lhs.ndim else lhs, rhs.flat[m] if rhs.ndim else rhs), float(np.max(d))))

    # no quantity is negative
    for k, arr in sorted(v.items()):
        if len(arr) and np.min(arr) < -ATOL:
            out.append(("negative-quantity:" + k, "month %d: %s = %.6g" % (int(np.argmin(arr)), k, np.min(arr)), float(-np.min(arr))))
        if np.any(~np.isfinite(arr)):
            out.append(("non-finite-quantity:" + k, k, float("inf")))

    h = lambda k: _a(v.get(k, np.zeros(N)))  # noqa: E731
    K = c["SEAWEED_KCALS"]

    # stored food
    use_sf = h("stored_food_to_humans") * w + h("stored_food_feed") + h("stored_food_biofuel")
    cum_sf = np.cumsum(use_sf)
    exceed("stored-food-used-beyond-initial-stock", cum_sf, np.full(N, s["stored"]), scale=s["stored"])
    if c["ADD_STORED_FOOD"] and human_round and carry:
        equal("stored-food-not-fully-used-by-last-month", cum_sf[-1], s["stored"])

    # outdoor crops
    use_cr = h("crops_food_to_humans") * w + h("crops_food_feed") + h("crops_food_biofuel")
    cum_cr, cum_prod = np.cumsum(use_cr), np.cumsum(s["crops"])
    exceed("crops-used-before-harvested", cum_cr, cum_prod, scale=max(1.0, cum_prod[-1]))
    if c["ADD_OUTDOOR_GROWING"] and human_round:
        equal("crops-not-fully-used-by-last-month", cum_cr[-1], cum_prod[-1])

    # meat
    if c["ADD_MEAT"]:
        eaten = h("meat_eaten") * w
        cum_e, cum_s = np.cumsum(eaten), np.cumsum(s["slaughter"])
        if carry:
            exceed("meat-eaten-before-slaughter", cum_e, cum_s, scale=max(1.0, cum_s[-1]))
        else:
            exceed("meat-eaten-beyond-month-slaughter", eaten, s["slaughter"], scale=max(1.0, cum_s[-1]))
        exceed("meat-eaten-beyond-total-slaughter", cum_e[-1], cum_s[-1])
    elif np.any(h("meat_eaten") > ATOL):
        out.append(("meat-eaten-although-culling-disabled", "", float(np.max(h("meat_eaten")))))

    # single cell protein, cellulosic sugar: monthly
    exceed("scp-used-beyond-month-output", h("methane_scp_to_humans") * w + h("methane_scp_feed") + h("methane_scp_biofuel"),
           s["scp"] if c["ADD_METHANE_SCP"] else np.zeros(N), scale=max(1.0, float(np.max(s["scp"]))))
    exceed("cellulosic-sugar-used-beyond-month-output",
           h("cellulosic_sugar_to_humans") * w + h("cellulosic_sugar_feed") + h("cellulosic_sugar_biofuel"),
           s["cs"] if c["ADD_CELLULOSIC_SUGAR"] else np.zeros(N), scale=max(1.0, float(np.max(s["cs"]))))

    # seaweed ledger (thousand tons wet; growth in percent per month handed to the optimiser)
    if c["ADD_SEAWEED"]:
        W, A = h("seaweed_wet_on_farm"), h("used_area")
        sh, sf_, sb = h("seaweed_to_humans"), h("seaweed_feed"), h("seaweed_biofuel")
        W0, A0 = c["INITIAL_SEAWEED"], c["INITIAL_BUILT_SEAWEED_AREA"]
        loss = c["MINIMUM_DENSITY"] * c["HARVEST_LOSS"] / 100.0
        equal("seaweed-ledger-start", [W[0], A[0], sh[0], sf_[0], sb[0]], [W0, A0, 0, 0, 0])
        g = s["growth"][1:N] / 100.0
        expW = W[:-1] * (1 + g) - sh[1:] * w - sf_[1:] - sb[1:] - (A[1:] - A[:-1]) * loss
        equal("seaweed-ledger-growth-and-harvest", W[1:], expW)
        exceed("seaweed-below-starting-level", np.full(N, W0), W, scale=max(1.0, W0))
        exceed("seaweed-above-density-limit", W, c["MAXIMUM_DENSITY"] * s["built"], scale=max(1.0, float(np.max(c["MAXIMUM_DENSITY"] * s["built"]))))
        exceed("seaweed-area-below-initial", np.full(N, A0), A)
        exceed("seaweed-area-beyond-built", A, s["built"])
    else:
        for k in ("seaweed_to_humans", "seaweed_feed", "seaweed_biofuel"):
            if np.any(h(k) > ATOL):
                out.append(("seaweed-used-although-absent", k, float(np.max(h(k)))))

    # feed and biofuel totals
    feed_tot = h("stored_food_feed") + h("crops_food_feed") + h("seaweed_feed") * K + h("cellulosic_sugar_feed") + h("methane_scp_feed")
    bio_tot = h("stored_food_biofuel") + h("crops_food_biofuel") + h("seaweed_biofuel") * K + h("cellulosic_sugar_biofuel") + h("methane_scp_biofuel")
    any_source = any(c[k] for k in ("ADD_STORED_FOOD", "ADD_OUTDOOR_GROWING", "ADD_SEAWEED", "ADD_CELLULOSIC_SUGAR", "ADD_METHANE_SCP"))
    if human_round:
        if any_source:
            equal("feed-total-differs-from-charge", feed_tot, s["feed"])
            equal("biofuel-total-differs-from-charge", bio_tot, s["biofuel"])
    else:
        exceed("feed-beyond-demand-ceiling", feed_tot, _a(tc["max_feed_that_could_be_used"].kcals))
        exceed("biofuel-beyond-demand-ceiling", bio_tot, _a(tc["max_biofuel_that_could_be_used"].kcals))
        exceed("feed-rises-month-to-month", feed_tot[1:], feed_tot[:-1], scale=max(1.0, float(np.max(feed_tot))))
    info = dict(tight_stock=bool((c["ADD_STORED_FOOD"] and abs(cum_sf[-1] - s["stored"]) <= 0.01 * max(s["stored"], 1e-9)) or
                                 (c["ADD_OUTDOOR_GROWING"] and abs(cum_cr[-1] - cum_prod[-1]) <= 0.01 * max(cum_prod[-1], 1e-9))),
                charge=float(np.sum(s["feed"]) + np.sum(s["biofuel"])) if human_round else float(np.sum(feed_tot) + np.sum(bio_tot)))
    return out, res, info
