"""Independent formulation of the allocation problems (C02), written from the statement of the problem and the
captured supplies only: variables ordered food x use x month in one sparse matrix, solved by HiGHS through SciPy.
No PuLP, no reuse of the model's constraint objects.

Human-maximising round:   max z  s.t.  z <= percent fed in every month, physical balances of every food, intake caps
                          (relative to the initial population's need and to actual intake), resilient-food share caps
                          in feed / biofuel, feed and biofuel totals equal to the round's charge.
Feed-maximising round:    max (2 F + B) / 3  with human consumption of every food pinned inside the band the model
                          applies, demand ceilings, feed and biofuel non-increasing month to month.
"""
import numpy as np
from scipy.optimize import linprog
from scipy.sparse import coo_matrix

USES = ("h", "f", "b")


class Builder:
    def __init__(self, N):
        self.N, self.n, self.idx = N, 0, {}
        self.rows_ub, self.b_ub, self.rows_eq, self.b_eq = [], [], [], []

    def new(self, name, count=None):
        k = self.N if count is None else count
        self.idx[name] = np.arange(self.n, self.n + k)
        self.n += k

    def ub(self, row, rhs):
        self.rows_ub.append(row)
        self.b_ub.append(rhs)

    def eq(self, row, rhs):
        self.rows_eq.append(row)
        self.b_eq.append(rhs)

    def mat(self, rows):
        r, c, v = [], [], []
        for i, row in enumerate(rows):
            for j, x in row.items():
                r.append(i)
                c.append(int(j))
                v.append(float(x))
        return coo_matrix((v, (r, c)), shape=(max(len(rows), 1), self.n)).tocsr()


def _foods(c):
    f = []
    if c["ADD_STORED_FOOD"]:
        f.append("sf")
    if c["ADD_OUTDOOR_GROWING"]:
        f.append("cr")
    if c["ADD_METHANE_SCP"]:
        f.append("scp")
    if c["ADD_CELLULOSIC_SUGAR"]:
        f.append("cs")
    if c["ADD_SEAWEED"]:
        f.append("sw")
    return f


def _setup(c):
    N = c["NMONTHS"]
    B = Builder(N)
    for f in _foods(c):
        for u in USES:
            B.new(f + "_" + u)
    if c["ADD_STORED_FOOD"]:
        B.new("sf_left")
    if c["ADD_OUTDOOR_GROWING"]:
        B.new("cr_left")
    if c["ADD_MEAT"]:
        B.new("me")
    if c["ADD_SEAWEED"]:
        B.new("sw_W")
        B.new("sw_A")
    return B


def _physical(B, c, tc, human_round):
    """balances of every food, identical for both rounds except the 'fully used' clauses"""
    N = c["NMONTHS"]
    inp = c["inputs"]
    w = 1.0 / (1.0 - inp["WASTE_RETAIL"] / 100.0)
    carry = bool(c["STORE_FOOD_BETWEEN_YEARS"])
    idx = B.idx
    lo, hi = np.zeros(B.n), np.full(B.n, np.inf)
    if "sf_h" in idx:
        S0 = float(np.atleast_1d(np.asarray(c["stored_food"].initial_available.kcals, float))[0])
        for m in range(N):
            if carry or m <= 12:     # the model lets the stock be drawn through simulation month index 12 without carry-over
                row = {idx["sf_left"][m]: 1.0, idx["sf_h"][m]: w, idx["sf_f"][m]: 1.0, idx["sf_b"][m]: 1.0}
                if m > 0:
                    row[idx["sf_left"][m - 1]] = -1.0
                B.eq(row, S0 if m == 0 else 0.0)
            else:
                for u in USES:
                    hi[idx["sf_" + u][m]] = 0.0
        if carry and human_round:
            hi[idx["sf_left"][N - 1]] = 0.0
    if "cr_h" in idx:
        prod = np.asarray(tc["outdoor_crops"].production.kcals, float)
        for m in range(N):
            row = {idx["cr_left"][m]: 1.0, idx["cr_h"][m]: w, idx["cr_f"][m]: 1.0, idx["cr_b"][m]: 1.0}
            if m > 0:
                row[idx["cr_left"][m - 1]] = -1.0
            B.eq(row, float(prod[m]))
        if human_round:
            hi[idx["cr_left"][N - 1]] = 0.0
    if "me" in idx:
        sl = np.asarray(tc["each_month_meat_slaughtered"].kcals, float)
        cum = np.cumsum(sl)
        total = float(c["meat_summed_consumption"])
        for m in range(N):
            if carry:
                # cumulative meat eaten (grossed up for retail waste) never exceeds what has been slaughtered so far
                B.ub({i: w for i in idx["me"][: m + 1]}, float(min(cum[m], total)))
            else:
                hi[idx["me"][m]] = max(0.0, float(sl[m])) / w
    for f, key in (("scp", "methane_scp"), ("cs", "cellulosic_sugar")):
        if f + "_h" in idx:
            out = np.asarray(tc[key].kcals, float)
            for m in range(N):
                B.ub({idx[f + "_h"][m]: w, idx[f + "_f"][m]: 1.0, idx[f + "_b"][m]: 1.0}, float(out[m]))
    if "sw_h" in idx:
        W, A = idx["sw_W"], idx["sw_A"]
        built = np.asarray(tc["built_area"], float)
        W0, A0 = float(c["INITIAL_SEAWEED"]), float(c["INITIAL_BUILT_SEAWEED_AREA"])
        loss = c["MINIMUM_DENSITY"] * c["HARVEST_LOSS"] / 100.0
        g = np.asarray(tc["growth_rates_monthly"], float) / 100.0
        for m in range(N):
            lo[W[m]], hi[W[m]] = W0, max(W0, c["MAXIMUM_DENSITY"] * float(built[m]))
            lo[A[m]], hi[A[m]] = A0, max(A0, float(built[m]))
            if m == 0:
                hi[W[0]], hi[A[0]] = W0, A0
                for u in USES:
                    hi[idx["sw_" + u][0]] = 0.0
            else:
                B.eq({W[m]: 1.0, W[m - 1]: -(1.0 + float(g[m])), idx["sw_h"][m]: w, idx["sw_f"][m]: 1.0, idx["sw_b"][m]: 1.0,
                      A[m]: loss, A[m - 1]: -loss}, 0.0)
    return lo, hi, w


def _coef(c):
    return {"sf": 1.0, "cr": 1.0, "scp": 1.0, "cs": 1.0, "sw": float(c["SEAWEED_KCALS"])}


def solve_humans(c, tc):
    """returns (optimum percent fed or None, status, solution vector, Builder)"""
    N = c["NMONTHS"]
    inp = c["inputs"]
    B = _setup(c)
    z = B.n
    B.n += 1
    lo, hi, w = _physical(B, c, tc, True)
    idx = B.idx
    need = float(c["BILLION_KCALS_NEEDED"])
    need0 = c["POP"] * c["KCALS_MONTHLY"] / 1e9
    K = _coef(c)
    feed = np.asarray(tc["feed"].kcals, float)
    bio = np.asarray(tc["biofuel"].kcals, float)
    fixed = np.asarray(tc["milk_kcals"], float) + np.asarray(tc["greenhouse_crops"].kcals, float) + np.asarray(tc["fish"].to_humans.kcals, float)
    foods = _foods(c)
    for m in range(N):
        # z <= percent fed this month
        row = {z: 1.0}
        for f in foods:
            row[idx[f + "_h"][m]] = -K[f] / need * 100.0
        if "me" in idx:
            row[idx["me"][m]] = -1.0 / need * 100.0
        B.ub(row, float(fixed[m]) / need * 100.0)
        # the round's charge
        for u, charge in (("f", feed), ("b", bio)):
            row = {idx[f + "_" + u][m]: K[f] for f in foods}
            if row:
                B.eq(row, float(charge[m]))
        # intake caps
        for f, nm in (("sw", "SEAWEED"), ("scp", "METHANE_SCP"), ("cs", "CELLULOSIC_SUGAR")):
            if f not in foods:
                continue
            cap = inp["MAX_%s_AS_PERCENT_KCALS_HUMANS" % nm] / 100.0
            hi[idx[f + "_h"][m]] = min(hi[idx[f + "_h"][m]], cap * need0 / K[f])
            row = {idx[f + "_h"][m]: K[f]}
            for g_ in foods:
                row[idx[g_ + "_h"][m]] = row.get(idx[g_ + "_h"][m], 0.0) - cap * K[g_]
            if "me" in idx:
                row[idx["me"][m]] = -cap
            B.ub(row, cap * float(fixed[m]))
            for u, charge, tag in (("f", feed, "FEED"), ("b", bio, "BIOFUEL")):
                capu = inp["MAX_%s_AS_PERCENT_KCALS_%s" % (nm, tag)] / 100.0
                hi[idx[f + "_" + u][m]] = min(hi[idx[f + "_" + u][m]], capu * float(charge[m]) / K[f])
    cost = np.zeros(B.n)
    cost[z] = -1.0
    return _solve(B, cost, lo, hi, z)


def solve_animals(c, tc):
    N = c["NMONTHS"]
    inp = c["inputs"]
    B = _setup(c)
    lo, hi, w = _physical(B, c, tc, False)
    idx = B.idx
    K = _coef(c)
    foods = _foods(c)
    feedcap = np.asarray(tc["feed"].kcals, float)
    biocap = np.asarray(tc["biofuel"].kcals, float)
    maxf = np.asarray(tc["max_feed_that_could_be_used"].kcals, float)
    maxb = np.asarray(tc["max_biofuel_that_could_be_used"].kcals, float)
    mh = tc["min_human_food_consumption"]
    band = 1e-4 if c["POP"] < 1e7 else 1e-5
    conv = c["POP"] * 30.0 / 1e9     # kcals per person per day -> billion kcals per month
    pins = {"sf_h": ("stored_food", 1.0), "cr_h": ("outdoor_crops", 1.0), "me": ("meat", 1.0), "scp_h": ("methane_scp", 1.0),
            "cs_h": ("cellulosic_sugar", 1.0), "sw_h": ("seaweed", K["sw"])}
    cost = np.zeros(B.n)
    for m in range(N):
        for vname, (fname, coef) in pins.items():
            if vname in idx:
                v = max(0.0, float(np.asarray(mh[fname].kcals, float)[m])) * conv   # solver noise below zero counts as zero
                lo[idx[vname][m]] = max(lo[idx[vname][m]], (1 - band) * v / coef)
                hi[idx[vname][m]] = min(hi[idx[vname][m]], (1 + band) * v / coef)
        for u, cap_series, wgt in (("f", maxf, 2.0 / 3.0), ("b", maxb, 1.0 / 3.0)):
            row = {idx[f + "_" + u][m]: K[f] for f in foods}
            for f in foods:
                cost[idx[f + "_" + u][m]] = -wgt * K[f]
            if row:
                B.ub(row, float(cap_series[m]))
                if m > 0:
                    r2 = dict(row)
                    for f in foods:
                        r2[idx[f + "_" + u][m - 1]] = -K[f]
                    B.ub(r2, 0.0)
        for f, nm in (("sw", "SEAWEED"), ("scp", "METHANE_SCP"), ("cs", "CELLULOSIC_SUGAR")):
            if f not in foods:
                continue
            for u, charge, tag in (("f", feedcap, "FEED"), ("b", biocap, "BIOFUEL")):
                capu = inp["MAX_%s_AS_PERCENT_KCALS_%s" % (nm, tag)] / 100.0
                hi[idx[f + "_" + u][m]] = min(hi[idx[f + "_" + u][m]], capu * float(charge[m]) / K[f])
    return _solve(B, cost, lo, hi, None)


# reference variable family -> the model's variable name (one per month), for checking a solution of the model against the reference
MODEL_NAMES = {"sf_h": "Stored_Food_To_Humans", "sf_f": "Stored_Food_Feed", "sf_b": "Stored_Food_Biofuel", "sf_left": "Stored_Food_End",
               "cr_h": "Crops_Food_To_Humans", "cr_f": "Crops_Food_Feed", "cr_b": "Crops_Food_Biofuel", "cr_left": "Crops_Food_Storage",
               "scp_h": "Methane_SCP_To_Humans", "scp_f": "Methane_SCP_Feed", "scp_b": "Methane_SCP_Biofuel",
               "cs_h": "Cellulosic_Sugar_To_Humans", "cs_f": "Cellulosic_Sugar_Feed", "cs_b": "Cellulosic_Sugar_Biofuel",
               "sw_h": "Seaweed_To_Humans", "sw_f": "Seaweed_Feed", "sw_b": "Seaweed_Biofuel", "sw_W": "Seaweed_Wet_On_Farm", "sw_A": "Used_Area",
               "me": "Meat_Eaten"}


def witness(B, values, objective_value, rtol=1e-6):
    """Is the model-side solution `values` ({model variable name: value}) a feasible point of the reference programme B (every bound and
    row within rtol of its own magnitude)?  Returns (feasible, value of the reference objective at that point, first violated constraint)."""
    x = np.zeros(B.n)
    for k, ids in B.idx.items():
        if k not in MODEL_NAMES:
            return False, None, "reference variable family %s has no counterpart in the model" % k
        for m, j in enumerate(ids):
            name = "%s_Month_%d_Variable" % (MODEL_NAMES[k], m)
            # a variable that occurs in no constraint of the model's programme (stock variables after the last month stocks may be used)
            # is absent from it: its reference counterpart takes its lower bound; if that matters, a row below will say so
            x[j] = values[name] if name in values else B.lo[j]
    if B.z is not None:
        x[B.z] = objective_value
    inv = {}
    for k, ids in B.idx.items():
        for m, j in enumerate(ids):
            inv[int(j)] = "%s[%d]" % (k, m)
    for j in range(B.n):
        if x[j] < B.lo[j] - rtol * max(1.0, abs(B.lo[j])) or (np.isfinite(B.hi[j]) and x[j] > B.hi[j] + rtol * max(1.0, abs(B.hi[j]))):
            return False, None, "bound of %s: %.9g outside [%.9g, %.9g]" % (inv.get(j, "z"), x[j], B.lo[j], B.hi[j])
    for rows, rhs, eq in ((B.rows_ub, B.b_ub, False), (B.rows_eq, B.b_eq, True)):
        for row, b in zip(rows, rhs):
            terms = [coef * x[j] for j, coef in row.items()]
            v = sum(terms)
            scale = max(1.0, abs(b), max((abs(t) for t in terms), default=0.0))
            if (eq and abs(v - b) > rtol * scale) or (not eq and v > b + rtol * scale):
                return False, None, "%s row over %s: %.9g vs %.9g" % ("equality" if eq else "inequality", [inv.get(j, "z") for j in list(row)[:5]], v, b)
    return True, float(-(B.cost @ x)), None


def _solve(B, cost, lo, hi, z):
    B.lo, B.hi, B.z, B.cost = lo, np.maximum(hi, lo), z, cost
    # bounds that cross by less than the solver's own feasibility tolerance (1e-6 billion kcals) are noise of the previous round
    infeasible_bounds = bool(np.any(hi < lo - 1e-6 * np.maximum(1.0, np.abs(lo))))
    hi = np.maximum(hi, lo)
    kw = {}
    if B.rows_ub:
        kw.update(A_ub=B.mat(B.rows_ub), b_ub=np.array(B.b_ub, float))
    if B.rows_eq:
        kw.update(A_eq=B.mat(B.rows_eq), b_eq=np.array(B.b_eq, float))
    res = linprog(cost, bounds=np.column_stack([lo, hi]), method="highs", **kw)
    if res.status not in (0, 2) and not infeasible_bounds:
        # iteration limit / numerical difficulties: the reference has not decided anything yet; try the other HiGHS algorithms
        for method in ("highs-ipm", "highs-ds"):
            res = linprog(cost, bounds=np.column_stack([lo, hi]), method=method, **kw)
            if res.status in (0, 2):
                break
    if res.status != 0 or infeasible_bounds:
        # status 2 = proven infeasible; 1 / 3 / 4 = the reference solver gave up ("undecided-...")
        st_ = "infeasible-bounds" if infeasible_bounds else ("infeasible" if res.status == 2 else "undecided-status-%d" % res.status)
        return None, st_, None, B
    return float(-res.fun), "optimal", res.x, B
