"""Dimensional reference for the unit system (C10, C11): every supported unit is defined from first principles as a
number of kcal (energy) or grams (fat, protein) per month, given the process-wide settings (population, daily needs,
30-day month, 4000 kcal per kg of dry caloric matter)."""

DAYS = 30
KCAL_PER_KG_DRY = 4000.0

KCAL_UNITS = ["billion kcals", "billion people fed", "percent people fed", "million dry caloric tons", "kcals per person per day"]
MASS_UNITS = ["thousand tons", "million tons", "billion people fed", "percent people fed", "effective kcals per person per day",
              "grams per person per day"]
FORMS = ["", " per month", " each month"]


def settings():
    from src.food_system.food import Food
    c = Food.conversions
    return dict(pop=c.population, kcals=c.kcals_daily, fat=c.fat_daily, protein=c.protein_daily)


def size(unit, nutrient, s=None):
    """how many kcal (or grams) per month one unit of `unit` is"""
    s = s or settings()
    P, K = s["pop"], s["kcals"]
    if nutrient == "kcals":
        return {"billion kcals": 1e9,
                "billion people fed": 1e9 * K * DAYS,
                "percent people fed": P * K * DAYS / 100.0,
                "million dry caloric tons": 1e6 * 1000.0 * KCAL_PER_KG_DRY,
                "kcals per person per day": P * DAYS}[unit]
    D = s[nutrient]   # grams per person per day
    return {"thousand tons": 1e3 * 1e6,
            "million tons": 1e6 * 1e6,
            "billion people fed": 1e9 * D * DAYS,
            "percent people fed": P * D * DAYS / 100.0,
            "grams per person per day": P * DAYS,
            # a share v/K of the daily energy need, expressed in kcal, applied to this nutrient's need
            "effective kcals per person per day": P * DAYS * D / K}[unit]


def factor(from_unit, to_unit, nutrient, s=None):
    return size(from_unit, nutrient, s) / size(to_unit, nutrient, s)
