"""What every Scenarios setter is documented to do (transcribed from the setters' docstrings/comments,
scenarios/README.md and src/scenarios/README.md).  Used by C13.

Each entry: name -> dict(flag, scale, args, needs, writes, values)
  flag   : the exactly-once family flag the setter belongs to
  scale  : "any" | "global" | "country"  (setters documented as applying to one scale only)
  args   : "c" (constants) | "c,row" | "c,tc" | "tc" | "none" | "row"
  needs  : top-level constant keys that must exist before the call (documented preconditions)
  writes : keys the setter may write; nested ones as "DELAY.X", "NUTRITION.X", ...; a trailing * is a prefix
  values : key -> expected value (or callable(row, constants_before) -> value) for the documented numbers
"""


def _shut(feed, bio, pct, needs=()):
    return dict(flag="NONHUMAN_CONSUMPTION_SET", scale="any", args="c", needs=list(needs),
                writes=["DELAY.FEED_SHUTOFF_MONTHS", "DELAY.BIOFUEL_SHUTOFF_MONTHS",
                        "MINIMUM_PERCENT_FED_BEFORE_NONHUMAN_CONSUMPTION_ALLOWED"],
                values={"DELAY.FEED_SHUTOFF_MONTHS": feed, "DELAY.BIOFUEL_SHUTOFF_MONTHS": bio,
                        "MINIMUM_PERCENT_FED_BEFORE_NONHUMAN_CONSUMPTION_ALLOWED": pct})


NM = lambda row, c: c["NMONTHS"]  # noqa: E731
WASTE_KEYS = ["WASTE_DISTRIBUTION*", "WASTE_RETAIL"]
GLOBAL_DIST = {"WASTE_DISTRIBUTION.SUGAR": 0.09, "WASTE_DISTRIBUTION.CROPS": 4.96, "WASTE_DISTRIBUTION.MEAT": 0.80,
               "WASTE_DISTRIBUTION.MILK": 2.12, "WASTE_DISTRIBUTION.SEAFOOD": 0.17, "WASTE_DISTRIBUTION.SEAWEED": 0.17}


def _cdist(extra):
    d = {"WASTE_DISTRIBUTION.SUGAR": lambda r, c: r["distribution_loss_sugar"] * 100,
         "WASTE_DISTRIBUTION.CROPS": lambda r, c: r["distribution_loss_crops"] * 100,
         "WASTE_DISTRIBUTION.MEAT": lambda r, c: r["distribution_loss_meat"] * 100,
         "WASTE_DISTRIBUTION.MILK": lambda r, c: r["distribution_loss_dairy"] * 100,
         "WASTE_DISTRIBUTION.SEAFOOD": lambda r, c: r["distribution_loss_seafood"] * 100,
         "WASTE_DISTRIBUTION.SEAWEED": lambda r, c: r["distribution_loss_seafood"] * 100}
    d.update(extra)
    return d


INTAKE_KEYS = ["MAX_%s_AS_PERCENT_KCALS_%s" % (f, u) for f in ("SEAWEED", "CELLULOSIC_SUGAR", "METHANE_SCP")
               for u in ("HUMANS", "FEED", "BIOFUEL")]
_INTAKE_COMMON = {"MAX_SEAWEED_AS_PERCENT_KCALS_FEED": 10, "MAX_CELLULOSIC_SUGAR_AS_PERCENT_KCALS_FEED": 10,
                  "MAX_METHANE_SCP_AS_PERCENT_KCALS_FEED": 43, "MAX_SEAWEED_AS_PERCENT_KCALS_BIOFUEL": 10,
                  "MAX_CELLULOSIC_SUGAR_AS_PERCENT_KCALS_BIOFUEL": 100, "MAX_METHANE_SCP_AS_PERCENT_KCALS_BIOFUEL": 100}
GRASS_KEYS = ["RATIO_GRASSES_YEAR%d" % i for i in range(1, 11)]
CROP_KEYS = ["RATIO_CROPS_YEAR%d" % i for i in range(1, 12)] + ["ADD_OUTDOOR_GROWING", "RATIO_OF_CROP_YIELDS_FROM_VERY_BEGINNING"]
SCEN_KEYS = ["INDUSTRIAL_FOODS_SLOPE_MULTIPLIER", "RATIO_INCREASED_CROP_AREA", "OG_USE_BETTER_ROTATION", "ADD_CELLULOSIC_SUGAR",
             "ADD_GREENHOUSES", "ADD_METHANE_SCP", "ADD_SEAWEED", "DELAY.SEAWEED_MONTHS", "GREENHOUSE_GAIN_PCT",
             "DELAY.GREENHOUSE_MONTHS", "GREENHOUSE_AREA_MULTIPLIER", "ROTATION_IMPROVEMENTS.FAT_RATIO",
             "ROTATION_IMPROVEMENTS.PROTEIN_RATIO", "NUMBER_YEARS_TAKES_TO_REACH_INCREASED_AREA", "DELAY.INDUSTRIAL_FOODS_MONTHS"]


def _scen(reloc, cs, gh, scp, sw, area=1):
    v = {"OG_USE_BETTER_ROTATION": reloc, "ADD_CELLULOSIC_SUGAR": cs, "ADD_GREENHOUSES": gh, "ADD_METHANE_SCP": scp,
         "ADD_SEAWEED": sw, "RATIO_INCREASED_CROP_AREA": area}
    if gh:
        v.update({"GREENHOUSE_GAIN_PCT": 44, "DELAY.GREENHOUSE_MONTHS": 2,
                  "GREENHOUSE_AREA_MULTIPLIER": lambda r, c: 0.19e9 / c["INITIAL_GLOBAL_CROP_AREA"]})
    if sw:
        v["DELAY.SEAWEED_MONTHS"] = 1
    if scp or cs:
        v.update({"DELAY.INDUSTRIAL_FOODS_MONTHS": 2, "INDUSTRIAL_FOODS_SLOPE_MULTIPLIER": 1})
    if reloc:
        v.update({"ROTATION_IMPROVEMENTS.FAT_RATIO": 1.647, "ROTATION_IMPROVEMENTS.PROTEIN_RATIO": 1.108})
    if area != 1:
        v["NUMBER_YEARS_TAKES_TO_REACH_INCREASED_AREA"] = 3
    return dict(flag="SCENARIO_SET", scale="any", args="c", needs=["INITIAL_GLOBAL_CROP_AREA", "DELAY", "ROTATION_IMPROVEMENTS"],
                writes=SCEN_KEYS, values=v)


NW_GRASS = [0.72, 0.24, 0.16, 0.13, 0.125, 0.15, 0.17, 0.23, 0.32, 0.41]
NW_CROPS = [1 - x for x in (0.53, 0.82, 0.89, 0.88, 0.84, 0.76, 0.65, 0.5, 0.33, 0.17, 0.08)]

SETTERS = {
    # shut-off schedules (README: months of feed / biofuel, threshold of people fed first)
    "set_immediate_shutoff": _shut(0, 0, 100),
    "set_one_month_delayed_shutoff": _shut(1, 1, 100),
    "set_short_delayed_shutoff": _shut(2, 1, 100),
    "set_long_delayed_shutoff": _shut(3, 2, 100),
    "set_continued_feed_biofuels": _shut(NM, NM, 100, needs=["STORE_FOOD_BETWEEN_YEARS", "NMONTHS"]),
    "set_continued_after_10_percent_fed": _shut(NM, NM, 10, needs=["STORE_FOOD_BETWEEN_YEARS", "NMONTHS"]),
    "set_long_delayed_shutoff_after_10_percent_fed": _shut(12, 6, 10, needs=["STORE_FOOD_BETWEEN_YEARS"]),
    # breeding
    "set_breeding_to_greatly_reduced": dict(flag="MEAT_STRATEGY_SET", scale="any", args="c", needs=[], writes=["BREEDING_STRATEGY"], values={"BREEDING_STRATEGY": "reduced"}),
    "set_to_baseline_breeding": dict(flag="MEAT_STRATEGY_SET", scale="any", args="c", needs=[], writes=["BREEDING_STRATEGY"], values={"BREEDING_STRATEGY": "baseline"}),
    "set_to_feed_only_ruminants": dict(flag="MEAT_STRATEGY_SET", scale="any", args="c", needs=[], writes=["BREEDING_STRATEGY"], values={"BREEDING_STRATEGY": "feed_only_ruminants"}),
    # waste
    "set_waste_to_zero": dict(flag="WASTE_SET", scale="any", args="c", needs=[], writes=WASTE_KEYS,
                              values=dict({k: 0 for k in GLOBAL_DIST}, WASTE_RETAIL=0)),
    "set_global_waste_to_tripled_prices": dict(flag="WASTE_SET", scale="global", args="c", needs=[], writes=WASTE_KEYS, values=dict(GLOBAL_DIST, WASTE_RETAIL=6.08)),
    "set_global_waste_to_doubled_prices": dict(flag="WASTE_SET", scale="global", args="c", needs=[], writes=WASTE_KEYS, values=dict(GLOBAL_DIST, WASTE_RETAIL=10.6)),
    "set_global_waste_to_baseline_prices": dict(flag="WASTE_SET", scale="global", args="c", needs=[], writes=WASTE_KEYS, values=dict(GLOBAL_DIST, WASTE_RETAIL=24.98)),
    "set_country_waste_to_tripled_prices": dict(flag="WASTE_SET", scale="country", args="c,row", needs=[], writes=WASTE_KEYS,
                                                values=_cdist({"WASTE_RETAIL": lambda r, c: r["retail_waste_price_triple"] * 100})),
    "set_country_waste_to_doubled_prices": dict(flag="WASTE_SET", scale="country", args="c,row", needs=[], writes=WASTE_KEYS,
                                                values=_cdist({"WASTE_RETAIL": lambda r, c: r["retail_waste_price_double"] * 100})),
    "set_country_waste_to_baseline_prices": dict(flag="WASTE_SET", scale="country", args="c,row", needs=[], writes=WASTE_KEYS,
                                                 values=_cdist({"WASTE_RETAIL": lambda r, c: r["retail_waste_baseline"] * 100})),
    # nutrition
    "set_baseline_nutrition_profile": dict(flag="NUTRITION_PROFILE_SET", scale="any", args="c", needs=[], writes=["NUTRITION*"],
                                           values={"NUTRITION.KCALS_DAILY": 2100, "NUTRITION.FAT_DAILY": 61.7, "NUTRITION.PROTEIN_DAILY": 59.5}),
    "set_catastrophe_nutrition_profile": dict(flag="NUTRITION_PROFILE_SET", scale="any", args="c", needs=[], writes=["NUTRITION*"],
                                              values={"NUTRITION.KCALS_DAILY": 2100, "NUTRITION.FAT_DAILY": 47, "NUTRITION.PROTEIN_DAILY": 51}),
    # intake caps
    "set_intake_constraints_to_enabled": dict(flag="INTAKE_CONSTRAINTS_SET", scale="any", args="c", needs=[], writes=INTAKE_KEYS,
                                              values=dict(_INTAKE_COMMON, MAX_SEAWEED_AS_PERCENT_KCALS_HUMANS=10,
                                                          MAX_CELLULOSIC_SUGAR_AS_PERCENT_KCALS_HUMANS=40, MAX_METHANE_SCP_AS_PERCENT_KCALS_HUMANS=50)),
    "set_intake_constraints_to_disabled_for_humans": dict(flag="INTAKE_CONSTRAINTS_SET", scale="any", args="c", needs=[], writes=INTAKE_KEYS,
                                                          values=dict(_INTAKE_COMMON, MAX_SEAWEED_AS_PERCENT_KCALS_HUMANS=100,
                                                                      MAX_CELLULOSIC_SUGAR_AS_PERCENT_KCALS_HUMANS=100, MAX_METHANE_SCP_AS_PERCENT_KCALS_HUMANS=100)),
    # stored food at start
    "set_no_stored_food": dict(flag="STORED_FOOD_SET", scale="any", args="c", needs=[], writes=["STORE_FOOD_BETWEEN_YEARS", "PERCENT_STORED_FOOD_TO_USE", "ADD_STORED_FOOD"],
                               values={"PERCENT_STORED_FOOD_TO_USE": 0, "ADD_STORED_FOOD": False}),
    "set_baseline_stored_food": dict(flag="STORED_FOOD_SET", scale="any", args="c", needs=[], writes=["STORE_FOOD_BETWEEN_YEARS", "PERCENT_STORED_FOOD_TO_USE", "ADD_STORED_FOOD"],
                                     values={"PERCENT_STORED_FOOD_TO_USE": 100, "ADD_STORED_FOOD": True}),
    # stocks left untouched / storage between years
    "set_stored_food_buffer_zero": dict(flag="STORED_FOOD_END_SIM_SET", scale="any", args="c", needs=[], writes=["STORE_FOOD_BETWEEN_YEARS", "RATIO_STOCKS_UNTOUCHED"],
                                        values={"STORE_FOOD_BETWEEN_YEARS": True, "RATIO_STOCKS_UNTOUCHED": 0}),
    "set_no_stored_food_between_years": dict(flag="STORED_FOOD_END_SIM_SET", scale="any", args="c", needs=[], writes=["STORE_FOOD_BETWEEN_YEARS", "RATIO_STOCKS_UNTOUCHED"],
                                             values={"STORE_FOOD_BETWEEN_YEARS": False, "RATIO_STOCKS_UNTOUCHED": 0}),
    "set_stored_food_buffer_as_baseline": dict(flag="STORED_FOOD_END_SIM_SET", scale="any", args="c", needs=[], writes=["STORE_FOOD_BETWEEN_YEARS", "RATIO_STOCKS_UNTOUCHED"],
                                               values={"STORE_FOOD_BETWEEN_YEARS": True, "RATIO_STOCKS_UNTOUCHED": 1}),
    "set_stored_food_buffer_as_baseline_and_no_stored_between_years": dict(flag="STORED_FOOD_END_SIM_SET", scale="any", args="c", needs=[],
                                                                           writes=["STORE_FOOD_BETWEEN_YEARS", "RATIO_STOCKS_UNTOUCHED"],
                                                                           values={"STORE_FOOD_BETWEEN_YEARS": False, "RATIO_STOCKS_UNTOUCHED": 1}),
    # seasonality
    "set_no_seasonality": dict(flag="SEASONALITY_SET", scale="any", args="c", needs=[], writes=["SEASONALITY"], values={"SEASONALITY": [1 / 12] * 12}),
    "set_global_seasonality_baseline": dict(flag="SEASONALITY_SET", scale="global", args="c", needs=[], writes=["SEASONALITY"],
                                            values={"SEASONALITY": [0.1121, 0.0178, 0.0241, 0.0344, 0.0338, 0.0411, 0.0882, 0.0791, 0.1042, 0.1911, 0.1377, 0.1365]}),
    "set_global_seasonality_nuclear_winter": dict(flag="SEASONALITY_SET", scale="global", args="c", needs=[], writes=["SEASONALITY"],
                                                  values={"SEASONALITY": [0.1564, 0.0461, 0.0650, 0.1017, 0.0772, 0.0785, 0.0667, 0.0256, 0.0163, 0.1254, 0.1183, 0.1228]}),
    "set_country_seasonality": dict(flag="SEASONALITY_SET", scale="country", args="c,row", needs=[], writes=["SEASONALITY"],
                                    values={"SEASONALITY": lambda r, c: [r["seasonality_m%d" % i] for i in range(1, 13)]}),
    # grasses
    "set_grasses_baseline": dict(flag="GRASSES_SET", scale="any", args="c", needs=[], writes=GRASS_KEYS, values={k: 1 for k in GRASS_KEYS}),
    "set_global_grasses_nuclear_winter": dict(flag="GRASSES_SET", scale="global", args="c", needs=[], writes=GRASS_KEYS,
                                              values={k: v for k, v in zip(GRASS_KEYS, NW_GRASS)}),
    "set_country_grasses_nuclear_winter": dict(flag="GRASSES_SET", scale="country", args="c,row", needs=[], writes=GRASS_KEYS,
                                               values={"RATIO_GRASSES_YEAR%d" % i: (lambda i: (lambda r, c: 1 + r["grasses_reduction_year%d" % i]))(i) for i in range(1, 11)}),
    "set_country_grasses_to_zero": dict(flag="GRASSES_SET", scale="country", args="c", needs=[], writes=GRASS_KEYS, values={k: 0 for k in GRASS_KEYS}),
    # fish (time constants)
    "set_fish_zero": dict(flag="FISH_SET", scale="any", args="c,tc", needs=["NMONTHS"], writes=["tc:FISH_PERCENT_MONTHLY"],
                          values={"tc:FISH_PERCENT_MONTHLY": lambda r, c: [0] * c["NMONTHS"]}),
    "set_fish_baseline": dict(flag="FISH_SET", scale="any", args="c,tc", needs=["NMONTHS"], writes=["tc:FISH_PERCENT_MONTHLY"],
                              values={"tc:FISH_PERCENT_MONTHLY": lambda r, c: [100] * c["NMONTHS"]}),
    "set_fish_nuclear_winter_reduction": dict(flag="FISH_SET", scale="any", args="tc", needs=[], writes=["tc:FISH_PERCENT_MONTHLY"], values={}),
    # crops
    "set_disruption_to_crops_to_zero": dict(flag="DISRUPTION_SET", scale="any", args="c", needs=[], writes=CROP_KEYS,
                                            values=dict({"RATIO_CROPS_YEAR%d" % i: 1 for i in range(1, 11)}, ADD_OUTDOOR_GROWING=True)),
    "set_nuclear_winter_global_disruption_to_crops": dict(flag="DISRUPTION_SET", scale="global", args="c", needs=[], writes=CROP_KEYS,
                                                          values=dict({"RATIO_CROPS_YEAR%d" % (i + 1): v for i, v in enumerate(NW_CROPS)}, ADD_OUTDOOR_GROWING=True)),
    "set_nuclear_winter_country_disruption_to_crops": dict(flag="DISRUPTION_SET", scale="country", args="c,row", needs=[], writes=CROP_KEYS,
                                                           values=dict({"RATIO_CROPS_YEAR%d" % i: (lambda i: (lambda r, c: 1 + r["crop_reduction_year%d" % i]))(i) for i in range(1, 11)},
                                                                       ADD_OUTDOOR_GROWING=True)),
    "set_zero_crops": dict(flag="DISRUPTION_SET", scale="any", args="c", needs=[], writes=CROP_KEYS,
                           values=dict({"RATIO_CROPS_YEAR%d" % i: 0 for i in range(1, 12)}, ADD_OUTDOOR_GROWING=False)),
    # fat / protein
    "include_protein": dict(flag="PROTEIN_SET", scale="any", args="c", needs=[], writes=["INCLUDE_PROTEIN"], values={"INCLUDE_PROTEIN": True}),
    "dont_include_protein": dict(flag="PROTEIN_SET", scale="any", args="c", needs=[], writes=["INCLUDE_PROTEIN"], values={"INCLUDE_PROTEIN": False}),
    "include_fat": dict(flag="FAT_SET", scale="any", args="c", needs=[], writes=["INCLUDE_FAT"], values={"INCLUDE_FAT": True}),
    "dont_include_fat": dict(flag="FAT_SET", scale="any", args="c", needs=[], writes=["INCLUDE_FAT"], values={"INCLUDE_FAT": False}),
    # resilient-food sets (README 'scenario')
    "get_all_resilient_foods_scenario": _scen(True, True, True, True, True),
    "get_all_resilient_foods_and_more_area_scenario": _scen(True, True, True, True, True, area=72 / 39),
    "get_no_resilient_food_scenario": _scen(False, False, False, False, False),
    "get_seaweed_scenario": _scen(False, False, False, False, True),
    "get_methane_scp_scenario": _scen(False, False, False, True, False),
    "get_cellulosic_sugar_scenario": _scen(False, True, False, False, False),
    "get_industrial_foods_scenario": _scen(False, True, False, True, False),
    "get_relocated_crops_scenario": _scen(True, False, False, False, False),
    "get_greenhouse_scenario": _scen(False, False, True, False, False),
    # culling
    "cull_animals": dict(flag="CULLING_PARAM_SET", scale="any", args="c", needs=[], writes=["ADD_MEAT", "ADD_MILK"], values={"ADD_MEAT": True, "ADD_MILK": True}),
    "dont_cull_animals": dict(flag="CULLING_PARAM_SET", scale="any", args="c", needs=[], writes=["ADD_MEAT", "ADD_MILK"], values={"ADD_MEAT": False, "ADD_MILK": False}),
}

ALL_FLAGS = ["NONHUMAN_CONSUMPTION_SET", "WASTE_SET", "INTAKE_CONSTRAINTS_SET", "NUTRITION_PROFILE_SET", "STORED_FOOD_SET",
             "STORED_FOOD_END_SIM_SET", "SCALE_SET", "SEASONALITY_SET", "GRASSES_SET", "FISH_SET", "DISRUPTION_SET",
             "GENERIC_INITIALIZED_SET", "SCENARIO_SET", "PROTEIN_SET", "FAT_SET", "CULLING_PARAM_SET", "MEAT_STRATEGY_SET"]

# dispatcher: option family -> value -> setter
DISPATCH = {
    "stored_food": {"zero": "set_no_stored_food", "baseline": "set_baseline_stored_food"},
    "ratio_stocks_untouched": {"zero": "set_stored_food_buffer_zero", "no_stored_between_years": "set_no_stored_food_between_years",
                               "baseline": "set_stored_food_buffer_as_baseline",
                               "baseline_no_stored_between_years": "set_stored_food_buffer_as_baseline_and_no_stored_between_years"},
    "shutoff": {"immediate": "set_immediate_shutoff", "one_month_delayed_shutoff": "set_one_month_delayed_shutoff",
                "short_delayed_shutoff": "set_short_delayed_shutoff", "long_delayed_shutoff": "set_long_delayed_shutoff",
                "continued": "set_continued_feed_biofuels", "continued_after_10_percent_fed": "set_continued_after_10_percent_fed",
                "long_delayed_shutoff_after_10_percent_fed": "set_long_delayed_shutoff_after_10_percent_fed"},
    "waste": {"zero": "set_waste_to_zero", "tripled_prices_in_country": "set_country_waste_to_tripled_prices",
              "doubled_prices_in_country": "set_country_waste_to_doubled_prices", "baseline_in_country": "set_country_waste_to_baseline_prices",
              "tripled_prices_globally": "set_global_waste_to_tripled_prices", "doubled_prices_globally": "set_global_waste_to_doubled_prices",
              "baseline_globally": "set_global_waste_to_baseline_prices"},
    "nutrition": {"baseline": "set_baseline_nutrition_profile", "catastrophe": "set_catastrophe_nutrition_profile"},
    "intake_constraints": {"enabled": "set_intake_constraints_to_enabled", "disabled_for_humans": "set_intake_constraints_to_disabled_for_humans"},
    "seasonality": {"no_seasonality": "set_no_seasonality", "country": "set_country_seasonality",
                    "baseline_globally": "set_global_seasonality_baseline", "nuclear_winter_globally": "set_global_seasonality_nuclear_winter"},
    "grasses": {"baseline": "set_grasses_baseline", "global_nuclear_winter": "set_global_grasses_nuclear_winter",
                "country_nuclear_winter": "set_country_grasses_nuclear_winter", "all_crops_die_instantly": "set_country_grasses_to_zero"},
    "fish": {"zero": "set_fish_zero", "nuclear_winter": "set_fish_nuclear_winter_reduction", "baseline": "set_fish_baseline"},
    "crop_disruption": {"zero": "set_disruption_to_crops_to_zero", "global_nuclear_winter": "set_nuclear_winter_global_disruption_to_crops",
                        "country_nuclear_winter": "set_nuclear_winter_country_disruption_to_crops", "all_crops_die_instantly": "set_zero_crops"},
    "protein": {"not_required": "dont_include_protein"},
    "fat": {"not_required": "dont_include_fat"},
    "cull": {"do_eat_culled": "cull_animals", "dont_eat_culled": "dont_cull_animals"},
    "scenario": {"all_resilient_foods": "get_all_resilient_foods_scenario",
                 "all_resilient_foods_and_more_area": "get_all_resilient_foods_and_more_area_scenario",
                 "no_resilient_foods": "get_no_resilient_food_scenario", "seaweed": "get_seaweed_scenario",
                 "methane_scp": "get_methane_scp_scenario", "cellulosic_sugar": "get_cellulosic_sugar_scenario",
                 "relocated_crops": "get_relocated_crops_scenario", "greenhouse": "get_greenhouse_scenario",
                 "industrial_foods": "get_industrial_foods_scenario"},
    "meat_strategy": {"reduce_breeding": "set_breeding_to_greatly_reduced", "baseline_breeding": "set_to_baseline_breeding",
                      "feed_only_ruminants": "set_to_feed_only_ruminants"},
}
REQUIRED_KEYS = ["scale", "stored_food", "ratio_stocks_untouched", "shutoff", "waste", "nutrition", "intake_constraints",
                 "seasonality", "grasses", "fish", "crop_disruption", "protein", "fat", "cull", "scenario", "meat_strategy"]


def flatten(c, tc=None):
    """{dotted key: value} of a constants dict (one level of nesting is all the setters use)"""
    out = {}
    for k, v in c.items():
        if isinstance(v, dict):
            for k2, v2 in v.items():
                out["%s.%s" % (k, k2)] = v2
            out[k + ".__dict__"] = True
        else:
            out[k] = v
    if tc is not None:
        for k, v in tc.items():
            out["tc:" + k] = v
    return out


def same(a, b):
    """exact equality of two constant values (numbers, strings, bools, sequences, arrays, nested dicts)"""
    import numpy as np
    if isinstance(a, str) or isinstance(b, str):
        return isinstance(a, str) and isinstance(b, str) and a == b
    if isinstance(a, dict) or isinstance(b, dict):
        return isinstance(a, dict) and isinstance(b, dict) and set(a) == set(b) and all(same(a[k], b[k]) for k in a)
    if isinstance(a, (list, tuple, np.ndarray)) or isinstance(b, (list, tuple, np.ndarray)):
        try:
            a1, b1 = np.asarray(a, dtype=float), np.asarray(b, dtype=float)
        except (TypeError, ValueError):
            return repr(a) == repr(b)
        return a1.shape == b1.shape and bool(np.all((a1 == b1) | (np.isnan(a1) & np.isnan(b1))))
    try:
        fa, fb = float(a), float(b)
        return fa == fb or (fa != fa and fb != fb)
    except (TypeError, ValueError):
        return repr(a) == repr(b)


def close(a, b, rtol=1e-12):
    import numpy as np
    if isinstance(a, (str, dict)) or isinstance(b, (str, dict)) or a is None or b is None:
        return same(a, b)
    try:
        a1, b1 = np.asarray(a, dtype=float), np.asarray(b, dtype=float)
    except (TypeError, ValueError):
        return same(a, b)
    return a1.shape == b1.shape and bool(np.all(np.abs(a1 - b1) <= rtol * np.maximum(1, np.abs(b1))))


def allowed(key, writes):
    for w in writes:
        if w.endswith("*"):
            if key.startswith(w[:-1]):
                return True
        elif key == w:
            return True
    return False


def diff_keys(before, after):
    """dotted keys whose value changed, appeared or disappeared"""
    ks = set(before) | set(after)
    return sorted(k for k in ks if (k not in before) or (k not in after) or not same(before[k], after[k]))
