"""Reference supply series written from the documentation (docstrings, READMEs, property statements),
not from the implementation's control flow.  All functions are pure and take plain numbers/lists.

Calendar: simulated month 0 is May.  Model year 1 is May..December (8 months), years 2..9 are 12 months
each, year 10 covers the remaining months (16 in a 120 month horizon).
"""
import numpy as np

SEED_FRACTION = 92.0 / 3898.0          # share of the harvest kept back as seed
KCALS_PER_DRY_TON = 4e6
START_MONTH_INDEX = 4                  # May, zero based


def model_year(m):
    """1-based model year of simulated month m"""
    if m < 8:
        return 1
    return min(10, 2 + (m - 8) // 12)


def year1_ratio(ratio_year1, seasonality, iso3):
    """May-December ratio of the first year (docstring of get_year_1_ratio_using_fraction_harvest_before_may):
    the annual figure of year 1 includes the (undisturbed) January-April harvest, so the ratio that applies to
    May..December is (annual ratio - share harvested before May) / (share harvested from May on); it is taken
    as 1 when less than a quarter of the harvest falls after April, and as 0 when nothing is left."""
    special = {"ZAF": 1.0, "JPN": 0.0, "PRK": 0.0, "KOR": 0.0}
    before = special[iso3] if iso3 in special else float(sum(seasonality[:4]))
    left = ratio_year1 - before
    if left <= 0:
        return 0.0
    after = 1.0 - before
    if after < 0.25:
        return 1.0
    return left / after


def outdoor_grown(annual_tons, seasonality, ratios_by_year, iso3, nmonths, relocated, exponent,
                  relocation_start, area_ratio=1.0, area_years=3, harvest_duration=8):
    """billion kcals grown per simulated month before greenhouse area and distribution waste.
    ratios_by_year: list of the 10 yearly disruption ratios (index 0 = year 1, annual figure)."""
    annual = annual_tons * (1.0 - SEED_FRACTION)
    y1 = year1_ratio(ratios_by_year[0], seasonality, iso3)
    out = np.zeros(nmonths)
    for m in range(nmonths):
        share = seasonality[(m + START_MONTH_INDEX) % 12]
        base = annual * share * KCALS_PER_DRY_TON / 1e9
        yr = model_year(m)
        ratio = y1 if yr == 1 else ratios_by_year[yr - 1]
        if ratio <= 0:
            ratio = round(ratio, 8)
        if relocated and m >= relocation_start:
            r = ratio if ratio > 1 else ratio ** exponent
            # cropland expansion: flat until the first harvest, then linear up to the configured ratio
            total = area_years * 12
            if area_ratio > 1:
                if m >= total:
                    r *= area_ratio
                elif m >= harvest_duration:
                    r *= 1 + (m - harvest_duration) * (area_ratio - 1) / (total - harvest_duration)
        else:
            r = ratio
        out[m] = base * r
    return out


def greenhouse_area(total_area_ha, share, delay, nmonths, add):
    """hectares under greenhouses per month: nothing for `delay` months plus 5 months from planting to
    harvest, then a constant expansion over 36 months up to share x cropland, then flat."""
    out = np.zeros(nmonths)
    if not add or total_area_ha == 0:
        return out
    limit = total_area_ha * share
    start = delay + 5
    for m in range(nmonths):
        if m < start:
            out[m] = 0.0
        elif m <= start + 36:
            out[m] = limit * (m - start) / 36.0
        else:
            out[m] = limit
    return out
