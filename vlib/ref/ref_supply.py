"""Reference supply series written from the documentation (docstrings, READMEs, property statements),
not from the implementation's control flow.  All functions are pure and take plain numbers/lists.

Calendar: simulated month 0 is May.  Model year 1 is May..December (8 months), years 2..9 are 12 months
each, year 10 covers the remaining months (16 in a 120 month horizon).
"""
import numpy as np

SEED_FRACTION = 92.0 / 3898.0          # share of the harvest kept back as seed
KCALS_PER_DRY_TON = 4e6
START_MONTH_INDEX = 4                  # May, zero based


def model_year(m):
    """1-based model year of simulated month m"""
    if m < 8:
        return 1
    return min(10, 2 + (m - 8) // 12)


def year1_ratio(ratio_year1, seasonality, iso3):
    """May-December ratio of the first year (docstring of get_year_1_ratio_using_fraction_harvest_before_may):
    the annual figure of year 1 includes the (undisturbed) January-April harvest, so the ratio that applies to
    May..December is (annual ratio - share harvested before May) / (share harvested from May on); it is taken
    as 1 when less than a quarter of the harvest falls after April, and as 0 when nothing is left."""
    special = {"ZAF": 1.0, "JPN": 0.0, "PRK": 0.0, "KOR": 0.0}
    before = special[iso3] if iso3 in special else float(sum(seasonality[:4]))
    left = ratio_year1 - before
    if left <= 0:
        return 0.0
    after = 1.0 - before
    if after < 0.25:
        return 1.0
    return left / after


def outdoor_grown(annual_tons, seasonality, ratios_by_year, iso3, nmonths, relocated, exponent,
                  relocation_start, area_ratio=1.0, area_years=3, harvest_duration=8):
    """billion kcals grown per simulated month before greenhouse area and distribution waste.
    ratios_by_year: list of the 10 yearly disruption ratios (index 0 = year 1, annual figure)."""
    annual = annual_tons * (1.0 - SEED_FRACTION)
    y1 = year1_ratio(ratios_by_year[0], seasonality, iso3)
    out = np.zeros(nmonths)
    for m in range(nmonths):
        share = seasonality[(m + START_MONTH_INDEX) % 12]
        base = annual * share * KCALS_PER_DRY_TON / 1e9
        yr = model_year(m)
        ratio = y1 if yr == 1 else ratios_by_year[yr - 1]
        if ratio <= 0:
            ratio = round(ratio, 8)
        if relocated and m >= relocation_start:
            r = ratio if ratio > 1 else ratio ** exponent
            # cropland expansion: flat until the first harvest, then linear up to the configured ratio
            total = area_years * 12
            if area_ratio > 1:
                if m >= total:
                    r *= area_ratio
                elif m >= harvest_duration:
                    r *= 1 + (m - harvest_duration) * (area_ratio - 1) / (total - harvest_duration)
        else:
            r = ratio
        out[m] = base * r
    return out


def greenhouse_area(total_area_ha, share, delay, nmonths, add):
    """hectares under greenhouses per month: nothing for `delay` months plus 5 months from planting to
    harvest, then a constant expansion over 36 months up to share x cropland, then flat."""
    out = np.zeros(nmonths)
    if not add or total_area_ha == 0:
        return out
    limit = total_area_ha * share
    start = delay + 5
    for m in range(nmonths):
        if m < start:
            out[m] = 0.0
        elif m <= start + 36:
            out[m] = limit * (m - start) / 36.0
        else:
            out[m] = limit
    return out


# ---------------------------------------------------------------------------------------------------------------
# the other supply series (C08)

FISH_YEARLY_REDUCTION = [0, -11, -32, -35, -34, -32.5, -32, -30, -29, -27, -22, -15, -8, 0, 0, 0]   # Xia et al. 2022, fig. 2b (percent)
MONTH_NAMES = ["JAN", "FEB", "MAR", "APR", "MAY", "JUN", "JUL", "AUG", "SEP", "OCT", "NOV", "DEC"]
SCP_RAMP = [0] * 12 + [2] * 5 + [4] + [7] * 5 + [9] + [11] * 6 + [13]        # percent of global needs, then 15 for good
CS_RAMP = [0.0] * 5 + [4.7] * 3                                              # then 9.5 for good
INDUSTRIAL_DOWNTIME = 0.12


def fish_percent(option, nmonths):
    if option == "zero":
        return np.zeros(nmonths)
    if option == "baseline":
        return np.full(nmonths, 100.0)
    out = np.zeros(nmonths)
    y = FISH_YEARLY_REDUCTION
    for m in range(nmonths):
        i, frac = m // 12, (m % 12) / 12.0
        out[m] = 100.0 + (y[i] + (y[i + 1] - y[i]) * frac if i + 1 < len(y) else y[-1])
    return out


def fish_series(annual_dry_tons, dist_waste_pct, retail_waste_pct, percent_series, add_fish=True):
    if not add_fish:
        return np.zeros(len(percent_series))
    monthly = annual_dry_tons * KCALS_PER_DRY_TON / 1e9 / 12.0 * (1 - dist_waste_pct / 100.0) * (1 - retail_waste_pct / 100.0)
    return np.asarray(percent_series, float) / 100.0 * monthly


def grass_year(m, nmonths):
    """model year of simulated month m for grazing: 8 months, then 12-month years, the last simulated year is extended"""
    n_years = nmonths // 12
    if m < 8:
        return 1
    return min(n_years, 2 + (m - 8) // 12)


def grass_series(baseline_monthly, ratios_by_year, nmonths):
    """billion kcals of human-inedible feed per month (million dry caloric tons x 4000)"""
    return np.array([baseline_monthly * ratios_by_year[grass_year(m, nmonths) - 1] * 1e6 * KCALS_PER_DRY_TON / 1e9 for m in range(nmonths)])


def demand_series(annual_dry_tons, months, nmonths):
    out = np.zeros(nmonths)
    out[: min(nmonths, months)] = annual_dry_tons / 12.0 * KCALS_PER_DRY_TON / 1e9
    return out


def industrial_series(ramp, plateau, delay, slope_multiplier, global_pop, kcals_daily, share_of_global, dist_waste_pct, nmonths, add=True):
    """billion kcals per month of an industrial food: nothing for `delay` months, then the published ramp (percent of global needs,
    corrected for 12 % downtime), times this country's share of global capacity, less distribution waste"""
    if not add:
        return np.zeros(nmonths)
    pct = [0.0] * delay + list(ramp) + [plateau] * (nmonths + 1)
    need = global_pop * kcals_daily * 30.0 / 1e9
    return np.array([pct[m] / (1 - INDUSTRIAL_DOWNTIME) * slope_multiplier / 100.0 * need * share_of_global * (1 - dist_waste_pct / 100.0)
                     for m in range(nmonths)])


def seaweed_built_area(new_area_fraction, max_area_fraction, delay, nmonths, add=True):
    initial = 0.1 * new_area_fraction
    per_month = 2.0765 * 30 * new_area_fraction
    cap = 1853.0 * max_area_fraction
    out = np.zeros(nmonths)
    for m in range(nmonths):
        if not add or m < delay:
            a = initial
        else:
            a = initial + (m - delay) * per_month
        out[m] = min(a, cap)
    return out


def seaweed_growth(per_day_by_key, nmonths):
    keys = sorted(per_day_by_key, key=lambda k: int(k))
    return np.array([100.0 * (1 + per_day_by_key[k] / 100.0) ** 30 for k in keys][:nmonths])


def initial_stored_food(end_of_month_stocks, start_month, percent_to_use, ratio_untouched, dist_waste_pct):
    """billion kcals available at the start: stock at the end of the month before the start month x share used
    - untouched share of the lowest monthly stock of the year; less distribution waste"""
    stocks = [end_of_month_stocks[k] for k in MONTH_NAMES]
    before = stocks[(start_month - 2) % 12]
    tons = before * percent_to_use / 100.0 - min(stocks) * ratio_untouched
    return tons * KCALS_PER_DRY_TON / 1e9 * (1 - dist_waste_pct / 100.0)


def crop_year_ratios(ratios_by_year, seasonality, iso3, nmonths):
    y1 = year1_ratio(ratios_by_year[0], seasonality, iso3)
    out = np.zeros(nmonths)
    for m in range(nmonths):
        yr = model_year(m)
        r = y1 if yr == 1 else ratios_by_year[yr - 1]
        out[m] = round(r, 8) if r <= 0 else r
    return out


def greenhouse_output(annual_tons, seasonality, ratios_by_year, iso3, nmonths, relocated, exponent, total_area_ha, share, delay, gain_pct,
                      dist_waste_pct, retail_waste_pct, add=True):
    """billion kcals per month from greenhouses = area x yield per hectare; the yield per hectare is the average monthly outdoor
    yield per hectare x the year's disruption ratio (softened by relocation) x (1 + greenhouse gain), after both wastes"""
    area = greenhouse_area(total_area_ha, share, delay, nmonths, add)
    if not add or total_area_ha == 0:
        return np.zeros(nmonths), area
    annual = annual_tons * (1.0 - SEED_FRACTION)
    mean_monthly = np.mean([annual * s * KCALS_PER_DRY_TON / 1e9 for s in seasonality])
    per_ha = mean_monthly / total_area_ha
    ratios = crop_year_ratios(ratios_by_year, seasonality, iso3, nmonths)
    e = exponent if relocated else 1.0
    y = np.array([per_ha * (r if r > 1 else r ** e) for r in ratios])
    y = y * (1 - dist_waste_pct / 100.0) * (1 - retail_waste_pct / 100.0) * (1 + gain_pct / 100.0)
    return y * area, area
