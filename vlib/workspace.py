"""Scratch copy of /repo's working tree.

The model resolves ``git.Repo(".")`` at import time in nine modules and writes
``<repo_root>/results/*.csv`` (and ``model.json`` in the cwd) on every run, and the import
scripts overwrite ``data/``.  Every check therefore works on a throw-away copy of the
*current working tree* of the repository (never of a commit), made outside /repo, /verif
and /tmp, and removed when the check exits.
"""
import atexit
import os
import shutil
import subprocess
import sys
import time

REPO = os.environ.get("VERIF_REPO", "/repo")
SCRATCH_BASE = os.environ.get("VERIF_SCRATCH", "/var/tmp")
VERIF = os.path.dirname(os.path.dirname(os.path.abspath(__file__)))

_scratch = None
_owner_pid = None


def _sweep_stale():
    now = time.time()
    try:
        for name in os.listdir(SCRATCH_BASE):
            if not name.startswith("allfed-verif."):
                continue
            p = os.path.join(SCRATCH_BASE, name)
            try:
                if now - os.path.getmtime(p) > 6 * 3600:
                    shutil.rmtree(p, ignore_errors=True)
            except OSError:
                pass
    except OSError:
        pass


def _cleanup():
    if _scratch and os.getpid() == _owner_pid:
        shutil.rmtree(os.path.dirname(_scratch), ignore_errors=True)


def prepare(with_results=False):
    """Copy the working tree, make it a git repository, chdir into it and put it first on
    sys.path.  Returns the path of the copy.  Idempotent per process tree."""
    global _scratch, _owner_pid
    if _scratch:
        return _scratch
    _sweep_stale()
    top = os.path.join(SCRATCH_BASE, "allfed-verif.%d.%d" % (os.getpid(), int(time.time() * 1000) % 10**9))
    dst = os.path.join(top, "repo")
    os.makedirs(dst)
    excludes = ["--exclude=.git", "--exclude=__pycache__", "--exclude=*.pyc", "--exclude=model.json"]
    if not with_results:
        excludes.append("--exclude=/results/*")
    r = subprocess.run(["rsync", "-a"] + excludes + [REPO.rstrip("/") + "/", dst + "/"],
                       capture_output=True, text=True)
    if r.returncode != 0:
        raise RuntimeError("rsync of %s failed: %s" % (REPO, r.stderr))
    os.makedirs(os.path.join(dst, "results", "large_reports"), exist_ok=True)
    subprocess.run(["git", "init", "-q", dst], check=True, capture_output=True)
    _scratch = dst
    _owner_pid = os.getpid()
    atexit.register(_cleanup)
    os.chdir(dst)
    # the copy must shadow the editable install that points at /repo
    sys.path[:] = [p for p in sys.path if os.path.abspath(p or ".") != os.path.abspath(REPO)]
    sys.path.insert(0, dst)
    if VERIF not in sys.path:
        sys.path.insert(1, VERIF)
    os.environ["PYTHONPATH"] = dst + os.pathsep + VERIF
    os.environ.setdefault("MPLBACKEND", "Agg")
    for m in list(sys.modules):
        if m == "src" or m.startswith("src."):
            del sys.modules[m]
    return dst


def scratch():
    return _scratch


def assert_src_is_scratch():
    import src  # noqa
    p = os.path.abspath(list(src.__path__)[0]) if hasattr(src, "__path__") else os.path.abspath(src.__file__)
    if not p.startswith(os.path.abspath(_scratch)):
        raise RuntimeError("src imported from %s, not from the scratch copy %s" % (p, _scratch))
