"""Driving the model from the harness: option tables, constants building, full runs with capture.

Everything here imports ``src`` lazily, after ``workspace.prepare()`` has put the scratch copy first
on sys.path.  Observation is done by wrapping public methods from the harness (no source hooks).
"""
import copy
import os
import sys
import traceback

import numpy as np

# option families and the values the dispatcher (run_scenario.set_depending_on_option) accepts,
# cross-checked against scenarios/README.md and src/scenarios/README.md
COUNTRY_FAMILIES = dict(
    scenario=["no_resilient_foods", "all_resilient_foods", "all_resilient_foods_and_more_area", "seaweed",
              "methane_scp", "cellulosic_sugar", "industrial_foods", "relocated_crops", "greenhouse"],
    stored_food=["zero", "baseline"],
    ratio_stocks_untouched=["zero", "no_stored_between_years", "baseline", "baseline_no_stored_between_years"],
    shutoff=["immediate", "one_month_delayed_shutoff", "short_delayed_shutoff", "long_delayed_shutoff", "continued",
             "continued_after_10_percent_fed", "long_delayed_shutoff_after_10_percent_fed"],
    waste=["zero", "tripled_prices_in_country", "doubled_prices_in_country", "baseline_in_country"],
    nutrition=["baseline", "catastrophe"],
    intake_constraints=["enabled", "disabled_for_humans"],
    seasonality=["no_seasonality", "country"],
    grasses=["baseline", "country_nuclear_winter", "all_crops_die_instantly"],
    fish=["zero", "nuclear_winter", "baseline"],
    crop_disruption=["zero", "country_nuclear_winter", "all_crops_die_instantly"],
    cull=["do_eat_culled", "dont_eat_culled"],
    meat_strategy=["reduce_breeding", "baseline_breeding", "feed_only_ruminants"],
)
GLOBAL_FAMILIES = dict(COUNTRY_FAMILIES,
                       waste=["zero", "tripled_prices_globally", "doubled_prices_globally", "baseline_globally"],
                       seasonality=["no_seasonality", "baseline_globally", "nuclear_winter_globally"],
                       grasses=["baseline", "global_nuclear_winter"],
                       crop_disruption=["zero", "global_nuclear_winter", "all_crops_die_instantly"])
FIXED = dict(fat="not_required", protein="not_required")
HORIZONS = [48, 60, 72, 84, 96, 108, 120]

BASELINE_COUNTRY = dict(scale="country", seasonality="country", grasses="baseline", crop_disruption="zero",
                        scenario="no_resilient_foods", fish="baseline", waste="baseline_in_country",
                        nutrition="baseline", intake_constraints="enabled", shutoff="continued",
                        cull="do_eat_culled", fat="not_required", protein="not_required",
                        meat_strategy="baseline_breeding", stored_food="baseline",
                        ratio_stocks_untouched="baseline", NMONTHS=120)

_table = None


def country_table():
    global _table
    if _table is None:
        import pandas as pd
        _table = pd.read_csv(os.path.join("data", "no_food_trade", "computer_readable_combined.csv"))
    return _table


def iso3_list():
    return country_table()["iso3"].tolist()


def country_row(iso3, options=None):
    """the (copied) row the runner would hand to the model, with custom parameters applied and verified"""
    from src.scenarios.run_model_no_trade import ScenarioRunnerNoTrade
    t = country_table()
    row = t[t["iso3"] == iso3].iloc[0].copy()
    r = ScenarioRunnerNoTrade()
    if options is not None:
        row = r.apply_custom_parameters(row, options)
    r.verify_country_data(row)
    return row


def build_constants(iso3, options):
    """(constants_for_params, time_consts_for_params, scenario_loader) exactly as run_optimizer_for_country builds them"""
    from src.scenarios.run_model_no_trade import ScenarioRunnerNoTrade
    r = ScenarioRunnerNoTrade()
    if options.get("scale") == "global":
        return r.set_depending_on_option(copy.deepcopy(options), country_data=None)
    row = country_row(iso3, options)
    return r.set_depending_on_option(copy.deepcopy(options), country_data=row)


def extreme_rows():
    """the extremes of the input table (absolute thresholds and tolerances bite there): the three smallest populations, the two smallest
    crop producers and the largest population"""
    t = country_table()
    by_pop = t.sort_values("population")["iso3"].tolist()
    by_crop = t.sort_values("crop_kcals")["iso3"].tolist()
    return list(dict.fromkeys(by_pop[:3] + by_crop[:2] + by_pop[-1:]))


def extreme_cases(thresholds=(None,), shutoff="long_delayed_shutoff"):
    """(iso3, options): every extreme row under a scenario in which feed, biofuel, meat and resilient foods all matter"""
    nw = dict(crop_disruption="country_nuclear_winter", grasses="country_nuclear_winter", fish="nuclear_winter")
    out = []
    for iso in extreme_rows():
        for T in thresholds:
            o = dict(BASELINE_COUNTRY, scenario="all_resilient_foods", shutoff=shutoff, **nw)
            if T is not None:
                o["MINIMUM_PERCENT_FED_BEFORE_NONHUMAN_CONSUMPTION_ALLOWED"] = T
            out.append((iso, o))
    return out


def column_extreme_rows(max_ties=3):
    """rows holding the largest or the smallest value of SOME numeric column of the input table (only when at most max_ties rows share
    it): data-dependent guards, caps and tolerances bite on such rows first - e.g. LUX is the only row with more than 85 % retail waste"""
    import numpy as np
    t = country_table()
    out = []
    for c in t.columns:
        if c in ("iso3", "country") or not np.issubdtype(t[c].dtype, np.number):
            continue
        for v in (t[c].max(), t[c].min()):
            rows = t.loc[t[c] == v, "iso3"].tolist()
            if len(rows) <= max_ties:
                out.extend(rows)
    return list(dict.fromkeys(extreme_rows() + out))


WIDE_BUNDLES = [
    dict(scenario="all_resilient_foods", shutoff="long_delayed_shutoff", crop_disruption="country_nuclear_winter",
         grasses="country_nuclear_winter", fish="nuclear_winter", waste="baseline_in_country"),
    dict(waste="doubled_prices_in_country", ratio_stocks_untouched="zero", shutoff="continued", NMONTHS=72),
    dict(scenario="seaweed", crop_disruption="country_nuclear_winter", grasses="country_nuclear_winter", fish="nuclear_winter",
         waste="tripled_prices_in_country", ratio_stocks_untouched="no_stored_between_years", shutoff="short_delayed_shutoff", NMONTHS=84),
    # nothing in store when the run starts: the first months are the lean ones, and the no-feed round stays below a 100 % minimum share
    dict(stored_food="zero", shutoff="continued"),
]


def extreme_cases_wide(bundles=(0, 1, 2), rotate=False):
    """(iso3, options) for every column-extreme row: under each of the named WIDE_BUNDLES (the three country waste levels, three stock
    regimes, with and without resilient foods), or - rotate=True - under one of them chosen by the row's position"""
    out = []
    for k, iso in enumerate(column_extreme_rows()):
        for b in ([bundles[k % len(bundles)]] if rotate else bundles):
            out.append((iso, dict(BASELINE_COUNTRY, **WIDE_BUNDLES[b])))
    return out


def named_countries():
    """countries the model's own source singles out by name or code (quoted literals in src/, the import scripts and the utilities'
    code list excluded): hand-written exceptions live there - SLV / ALB / ECU rewrite rules, the NZL hold-back, the SWT alias, ...
    Read from the tree under test, so a newly special-cased country is picked up too."""
    import glob
    import re
    t = country_table()
    iso = set(t["iso3"])
    names = dict(zip(t["country"], t["iso3"]))
    out = set()
    for fn in sorted(glob.glob(os.path.join("src", "**", "*.py"), recursive=True)):
        if "import_scripts" in fn or fn.endswith("import_utilities.py"):
            continue
        for m in re.finditer(r"""["']([^"'\n]{2,40})["']""", open(fn, encoding="utf-8").read()):
            lit = m.group(1)
            if lit in iso:
                out.add(lit)
            elif lit in names:
                out.add(names[lit])
    return sorted(out)


def named_country_cases(per_country=None, seed=0):
    """(iso3, options): every named country under the full product of the four families that steer the three rounds (breeding strategy,
    stock regime, culled meat, shut-off schedule: 168 combinations) - or a seeded sample of per_country of them - in nuclear winter"""
    import itertools
    fam = COUNTRY_FAMILIES
    combos = list(itertools.product(fam["meat_strategy"], fam["ratio_stocks_untouched"], fam["cull"], fam["shutoff"]))
    rng = np.random.RandomState(1000 + seed)
    out = []
    for iso in named_countries():
        pick = combos if per_country is None else [combos[k] for k in rng.choice(len(combos), size=per_country, replace=False)]
        for ms, rs, cu, sh in pick:
            out.append((iso, dict(BASELINE_COUNTRY, crop_disruption="country_nuclear_winter", grasses="country_nuclear_winter",
                                  fish="nuclear_winter", meat_strategy=ms, ratio_stocks_untouched=rs, cull=cu, shutoff=sh, NMONTHS=48)))
    return out


def run_fixed(ctx, cases, fn):
    """run fn(iso3, options, k) for this shard's share of a fixed case list, collecting violations"""
    from vlib.harness import Violation
    for k, (iso, o) in enumerate(cases):
        if k % ctx.nshards != ctx.shard:
            continue
        ctx.event("extreme_row_fixed_run")
        try:
            fn(iso, o, k)
        except Violation as v:
            ctx.record_violation(v)


def abort_or_supply_failure(ctx, e, case):
    """an exception while the first round's parameters are computed: raised inside the supply classes (src/food_system) it is a violation
    of 'one finite value per simulated month' (the code raises on valid constants); raised by the loader / optimiser glue it is the
    subject of C16 and only counted"""
    import sys
    frame = project_frame(e.__traceback__)
    if frame.startswith("food_system/") and not isinstance(e, AssertionError):
        ctx.fail("supply-code-raises-on-valid-constants:%s@%s" % (type(e).__name__, frame), "%s: %s" % (type(e).__name__, str(e)[:120]), case)
    ctx.abort("%s@%s" % (type(e).__name__, frame))


def first_round(iso3, options):
    from src.optimizer.parameters import Parameters
    cp, tcp, loader = build_constants(iso3, options)
    out = Parameters().compute_parameters_first_round(cp, tcp, loader)
    return cp, tcp, out


def project_frame(exc_tb):
    """innermost frame inside the scratch copy's src/ (for bucketing aborts)"""
    fr = None
    for f in traceback.extract_tb(exc_tb):
        if "/src/" in f.filename:
            fr = f
    if fr is None:
        return "?"
    return "%s:%s" % (fr.filename.split("/src/")[-1], fr.name)


def values_of(variables):
    """{name: float array} of the LP variables after the last solve"""
    vals = {}
    for k, v in variables.items():
        if isinstance(v, list):
            vals[k] = np.array([float(x.varValue) if hasattr(x, "varValue") and x.varValue is not None
                                else (0.0 if hasattr(x, "varValue") else float(x)) for x in v], dtype=float)
    return vals


class Capture:
    """wraps the observation points for the duration of one run (one per process at a time)"""

    def __init__(self):
        self.opt = []          # dict(type, consts, tc, vals, obj)
        self.herds = []        # CalculateFeedAndMeat instances in construction order
        self.interp = []       # (title, Interpreter)
        self.rounds = {}       # 'first'/'second'/'third' -> returned tuples
        self.current_round = None
        self._undo = []

    def install(self):
        from src.optimizer import optimizer as om
        from src.optimizer import parameters as pm
        from src.optimizer import interpret_results as im
        from src.food_system import animal_populations as ap
        cap = self

        def wrap(obj, name, fn):
            orig = getattr(obj, name)
            setattr(obj, name, fn(orig))
            self._undo.append((obj, name, orig))

        def w_opt(typ):
            def deco(orig):
                def w(self_, *a, **k):
                    consts = copy.deepcopy(self_.consts_for_optimizer)
                    out = orig(self_, *a, **k)
                    model, variables, mc, pf = out
                    cap.opt.append(dict(type=typ, consts=consts, tc=copy.deepcopy(self_.time_consts),
                                        vals=values_of(variables), obj=pf))
                    return out
                return w
            return deco
        wrap(om.Optimizer, "optimize_to_humans", w_opt("to_humans"))
        wrap(om.Optimizer, "optimize_feed_to_animals", w_opt("to_animals"))

        def w_round(tag):
            def deco(orig):
                def w(self_, *a, **k):
                    cap.current_round = tag
                    try:
                        out = orig(self_, *a, **k)
                    finally:
                        cap.current_round = None
                    cap.rounds[tag] = dict(args=a, out=out, obj=self_)
                    return out
                return w
            return deco
        wrap(pm.Parameters, "compute_parameters_first_round", w_round("first"))
        wrap(pm.Parameters, "compute_parameters_second_round", w_round("second"))
        wrap(pm.Parameters, "compute_parameters_third_round", w_round("third"))

        def w_herd(orig):
            def w(self_, *a, **k):
                orig(self_, *a, **k)
                cap.herds.append(dict(obj=self_, args=a, kwargs=k, round=cap.current_round))
            return w
        wrap(ap.CalculateFeedAndMeat, "__init__", w_herd)
        # parameters.py imported the class by name
        if hasattr(pm, "CalculateFeedAndMeat"):
            pass  # same class object; __init__ patched on the class itself

        def w_interp(orig):
            def w(self_, extracted, title="Untitled"):
                out = orig(self_, extracted, title)
                cap.interp.append((title, out))
                return out
            return w
        wrap(im.Interpreter, "interpret_results", w_interp)
        return self

    def uninstall(self):
        for obj, name, orig in reversed(self._undo):
            setattr(obj, name, orig)
        self._undo = []


def run_case(iso3, options, title="verif", capture=True, save_all_results=False, share_options=False):
    """one three-round run through the public multi-country runner.
    Returns dict(ok, result|exc, cap, out).  Never raises for model-side failures."""
    from vlib.harness import quiet
    from src.scenarios.run_model_no_trade import ScenarioRunnerNoTrade
    cap = Capture().install() if capture else None
    res = dict(ok=False, cap=cap, iso3=iso3, options=options, title=title)
    try:
        with quiet():
            r = ScenarioRunnerNoTrade()
            if options.get("scale") == "global":
                cp, tcp, loader = r.set_depending_on_option(options if share_options else copy.deepcopy(options), country_data=None)
                from src.scenarios.run_scenario import ScenarioRunner
                interp = ScenarioRunner().run_and_analyze_scenario(
                    cp, tcp, loader, False, False, "", None, False, "world", "WOR", title=title)
                res.update(ok=True, result=interp, out=None)
            else:
                out = r.run_model_no_trade(title=title, create_pptx_with_all_countries=False,
                                           show_country_figures=False, show_map_figures=False,
                                           add_map_slide_to_pptx=False,
                                           # share_options: hand the caller's very dictionary to the model (as a loop over scenarios does)
                                           scenario_option=options if share_options else copy.deepcopy(options),
                                           countries_list=[iso3], return_results=True,
                                           save_all_results=save_all_results)
                results = out[3]
                if len(results) != 1:
                    raise RuntimeError("expected exactly one country result, got %d" % len(results))
                res.update(ok=True, result=list(results.values())[0], out=out)
    except BaseException as e:
        if isinstance(e, KeyboardInterrupt):
            raise
        res.update(ok=False, exc_type=type(e).__name__, exc_msg=str(e)[:200],
                   exc_frame=project_frame(sys.exc_info()[2]))
    finally:
        if cap:
            cap.uninstall()
    return res
