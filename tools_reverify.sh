#!/bin/bash
# re-run the quick tier of each seeded change's own property check against a worktree with the change applied
cd /verif
out=${REVERIFY_LOG:-/var/tmp/reverify.log}; : > $out
for d in seeded/*/; do
  id=$(basename $d)
  prop=$(python3 -c "import json;print(json.load(open('$d/meta.json'))['property'])")
  vt=/tmp/vt_rv
  git -C /repo worktree add -q --detach $vt HEAD || { echo "$id worktree failed" >> $out; continue; }
  if (cd $vt && git apply /verif/$d/patch.diff 2>/dev/null); then
    r=$(VERIF_SEED=1 VERIF_REPO=$vt ./check.py $prop --no-evidence 2>&1 | grep -E "^C[0-9]+ tier|VIOLATION|HARNESS" | grep -v KNOWN | cut -c1-200 | tr '\n' '|')
    echo "$id [$prop] $r" >> $out
  else
    echo "$id [$prop] PATCH DOES NOT APPLY" >> $out
  fi
  rm -f /verif/replay/*/viol-*
  git -C /repo worktree remove --force $vt
done
echo "=== done $(date +%H:%M:%S)" >> $out
