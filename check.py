#!/venv/bin/python
"""check.py <ID> [--tier quick|thorough] [--replay path]   exit 0 held / 1 violation / 2 harness error"""
import os
import sys

HERE = os.path.dirname(os.path.abspath(__file__))


def main():
    if len(sys.argv) < 2:
        print(__doc__)
        return 2
    if os.environ.get("PYTHONHASHSEED") != "0":
        env = dict(os.environ, PYTHONHASHSEED="0")
        os.execve(sys.executable, [sys.executable, os.path.abspath(__file__)] + sys.argv[1:], env)
    sys.path.insert(0, HERE)
    prop = sys.argv[1].upper()
    from vlib.harness import run_check
    return run_check("checks." + prop.lower(), sys.argv[2:])


if __name__ == "__main__":
    try:
        rc = main()
    except SystemExit:
        raise
    except BaseException:
        import traceback
        traceback.print_exc()
        rc = 2
    sys.stdout.flush()
    sys.exit(rc)
