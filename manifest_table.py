chk("C09", "property-based testing: generated constants vs documented reference series + metamorphic laws (scale, relocation, area)",
    "Hypothesis search over generated crop/greenhouse constants and drawn (country, option) pairs; every monthly value is compared with an independently written reference and three metamorphic laws. Sampling, not proof; 1e-9 relative tolerance.",
    "Trusted: vlib/ref/ref_supply.py transcription of the documented calendar and ramp; numpy float arithmetic.", "DESIGN.md section 2 C09")
