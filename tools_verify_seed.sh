#!/bin/bash
# tools_verify_seed.sh <seeded-name> <author-worktree> <CHECK> [CHECK...]
# copies patch/demo/notes into /verif/seeded/<name>, re-verifies the demonstration in an own scratch worktree of /repo HEAD
# (demo without change -> 0, with change -> non-zero, fast tests with change pass) and runs the named checks against the changed tree.
set -u
name=$1; wt=$2; shift 2
d=/verif/seeded/$name; mkdir -p $d
cp $wt/patch.diff $wt/demo.py $wt/NOTES.md $d/ 2>/dev/null
vt=/tmp/vt_$$
git -C /repo worktree add -q --detach $vt HEAD || exit 2
cd $vt && cp $d/demo.py .
timeout 1500 /venv/bin/python demo.py > $d/demo_without_change.log 2>&1; echo "demo without change: exit $?"
git apply $d/patch.diff || { echo "PATCH DOES NOT APPLY"; }
timeout 1500 /venv/bin/python demo.py > $d/demo_with_change.log 2>&1; echo "demo with change: exit $?"
tail -3 $d/demo_with_change.log | cut -c1-300
/venv/bin/python -m pytest -q -p no:cacheprovider tests --ignore=tests/test_individual_scenarios.py --ignore=tests/test_argentina_parameters.py 2>&1 | tail -1
cd /verif
for c in "$@"; do
  for s in 1 2; do
    VERIF_SEED=$s VERIF_REPO=$vt ./check.py $c --no-evidence 2>&1 | grep -E "^C[0-9]+ tier|VIOLATION|HARNESS" | cut -c1-330
  done
done
rm -f /verif/replay/*/viol-*
git -C /repo worktree remove --force $vt
