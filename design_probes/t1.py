import time, sys, os, io, contextlib
t0=time.time()
from src.scenarios.run_model_no_trade import ScenarioRunnerNoTrade
from src.scenarios import run_scenarios_from_yaml as ry
print("import", time.time()-t0)
cfg = ry.load_config_data("argentina.yaml")
sims = cfg["simulations"]
for name, sim in sims.items():
    sim["NMONTHS"]=120
    t=time.time()
    r = ScenarioRunnerNoTrade()
    buf=io.StringIO()
    with contextlib.redirect_stdout(buf):
        out = r.run_model_no_trade(title=sim["title"], create_pptx_with_all_countries=False, show_country_figures=False, show_map_figures=False, add_map_slide_to_pptx=False, scenario_option=sim, countries_list=["ARG"], return_results=True)
    res = list(out[3].values())[0]
    print(name, round(time.time()-t,1), "s  pct", res.percent_people_fed)
