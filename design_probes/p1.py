import numpy as np, pandas as pd
from src.food_system.food import Food
Food.conversions.set_nutrition_requirements(2100,47,51,False,False,1e6)
# 1. feed_the_species partial
from src.food_system.animal_populations import AnimalSpecies
a = AnimalSpecies("meat_cattle","cattle")
a.set_animal_attributes(population=100, slaughter=10, animal_function="meat", livestock_unit=1, digestion_type="ruminant", animal_size="large", approximate_feed_conversion=8)
a.reset_NE_balance()
req = a.NE_balance.kcals
g = Food(0.0,0,0); f = Food(req*0.75/0.8,0,0)
a.feed_the_species(g,f,is_ruminant=True)
print("required",req,"fed 75% ->population_fed",a.population_fed,"of",a.current_population, "NE_balance left", a.NE_balance.kcals)
# 2. strip
for k in ["asses_head_start","rabbit_head_start","turkey_head_start","chicken_head_start","meat_sheep_head_start","duck_head_start","goose_head_start","other_rodents_head_start","camelids_head_start","mule_head_start","horse_head_start","pig_head_start","milk_sheep_head_start"]:
    print(k, "->", k.strip("_start"))
# 3. table
t = pd.read_csv("data/no_food_trade/computer_readable_combined.csv")
print(t.shape, "WOR" in set(t.iso3), t.iso3.tolist()[:5], t.population.min())
# 4. Food label checks
m = Food([1.,2.],[1.,2.],[1.,2.],"billion kcals each month","thousand tons each month","thousand tons each month")
x = m[0]; print("getitem int:", x.kcals, x.units, x.kcals_units)
y = m.get_month(0); print("get_month:", y.kcals_units, y.units)
r = Food.ratio_one(); s = Food(2,3,4)
print("ratio*unit:", (r*s).units, " unit*ratio:", (s*r).units)
