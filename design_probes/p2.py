import numpy as np, pandas as pd, io, contextlib, copy
from src.scenarios.run_model_no_trade import ScenarioRunnerNoTrade
from src.scenarios import run_scenarios_from_yaml as ry
from src.optimizer.parameters import Parameters
cfg = ry.load_config_data("argentina.yaml")
base = cfg["simulations"]["argentina_net_nuclear_resilient"]; base["NMONTHS"]=120
t = pd.read_csv("data/no_food_trade/computer_readable_combined.csv")
r = ScenarioRunnerNoTrade()
for iso in ["DJI","LSO","ARG"]:
  for scen in ["relocated_crops","greenhouse","no_resilient_foods","all_resilient_foods"]:
    opt = copy.deepcopy(base); opt["scenario"]=scen
    cd = t[t.iso3==iso].iloc[0]
    with contextlib.redirect_stdout(io.StringIO()):
        c, tc, sl = r.set_depending_on_option(opt, country_data=cd)
        out = Parameters().compute_parameters_first_round(c, tc, sl)
    oc = out[1]["outdoor_crops"]
    prod = oc.production.kcals
    gh = out[1]["greenhouse_crops"].kcals
    norel = np.array(oc.NO_RELOCATION_KCALS_GROWN); grown=np.array(oc.KCALS_GROWN)
    w = 1-c["WASTE_DISTRIBUTION"]["CROPS"]/100
    print(iso, scen, "prod[10:16]", np.round(prod[10:16],3), "grown*w", np.round(grown[10:16]*w,3), "norel*w", np.round(norel[10:16]*w,3), "gh", np.round(gh[40:42],3))
