import numpy as np, itertools
from src.food_system.food import Food
pop, kd, fd, pd_ = 3.7e7, 2345.0, 55.0, 61.0
Food.conversions.set_nutrition_requirements(kd, fd, pd_, True, True, pop)
KB = ["billion kcals","billion people fed","percent people fed","million dry caloric tons","kcals per person per day"]
FB = ["thousand tons","million tons","billion people fed","percent people fed","effective kcals per person per day","grams per person per day"]
# reference: factor from unit to base (kcal per month) / (grams per month)
def kf(u): return {"billion kcals":1e9,"billion people fed":kd*30*1e9,"percent people fed":pop*kd*30/100,"million dry caloric tons":1e6*1000*4000,"kcals per person per day":pop*30}[u]
def gf(u,daily): return {"thousand tons":1e9,"million tons":1e12,"billion people fed":daily*30*1e9,"percent people fed":pop*daily*30/100,"effective kcals per person per day":pop*daily*30/kd,"grams per person per day":pop*30}[u]
bad=0; n=0; worst=0
for form in ["", " per month", " each month"]:
  for k1,f1,p1 in itertools.product(KB,FB,FB):
    vals = (3.3,4.4,5.5) if form!=" each month" else (np.array([3.3,1.0]),np.array([4.4,2.0]),np.array([5.5,0.5]))
    try:
        a = Food(vals[0],vals[1],vals[2],k1+form,f1+form,p1+form)
    except BaseException as e:
        print("CONSTRUCT", form, k1, type(e).__name__); continue
    for k2,f2,p2 in itertools.product(KB,FB[:3]+FB[3:],FB):
        if (f2!=p2) and (f2,p2) not in [(FB[0],FB[0])]:  # limit: to-units fat==protein pairs + a few
            if not (f2==FB[1] and p2==FB[5]): continue
        n+=1
        try:
            b = a.in_units(k2,f2,p2)
        except BaseException as e:
            bad+=1; print("EXC",repr(form),k1,f1,p1,"->",k2,f2,p2,type(e).__name__,str(e)[:60]); continue
        exp = (np.asarray(vals[0])*kf(k1)/kf(k2), np.asarray(vals[1])*gf(f1,fd)/gf(f2,fd), np.asarray(vals[2])*gf(p1,pd_)/gf(p2,pd_))
        got = (np.asarray(b.kcals),np.asarray(b.fat),np.asarray(b.protein))
        rel = max(np.max(np.abs(g-e)/np.abs(e)) for g,e in zip(got,exp)); worst=max(worst,rel)
        lab_ok = b.units==[k2+form,f2+form,p2+form] and b.units==[b.kcals_units,b.fat_units,b.protein_units]
        shape_ok = (np.ndim(b.kcals)==np.ndim(vals[0]))
        if rel>1e-12 or not lab_ok or not shape_ok:
            bad+=1
            if bad<15: print("BAD",repr(form),k1,f1,p1,"->",k2,f2,p2,rel,lab_ok,shape_ok,b.units)
print("cases",n,"bad",bad,"worst rel",worst)
# anchors
need = Food(Food.conversions.billion_kcals_needed, Food.conversions.thou_tons_fat_needed, Food.conversions.thou_tons_protein_needed,"billion kcals per month","thousand tons per month","thousand tons per month")
print(need.in_units_percent_fed().kcals, need.in_units_kcals_equivalent().kcals, need.in_units_billions_fed().kcals, pop/1e9, need.in_units_kcals_grams_grams_per_person().fat)
