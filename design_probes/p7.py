import numpy as np, pandas as pd, io, contextlib, random
from src.food_system.food import Food
from src.food_system import animal_populations as ap
Food.conversions.set_nutrition_requirements(2100,47,51,False,False,1e7)
def mk(vals):
    n=len(vals); return Food(kcals=np.array(vals,float),fat=np.zeros(n),protein=np.zeros(n),kcals_units="billion kcals each month",fat_units="thousand tons each month",protein_units="thousand tons each month")
kd = {"KCALS_PER_CHICKEN":1.65*1525/1e9,"KCALS_PER_PIG":3590*86/1e9,"KCALS_PER_SMALL_ANIMAL":1525*2.36/1e9,"KCALS_PER_MEDIUM_ANIMAL":3590*24.6/1e9,"KCALS_PER_LARGE_ANIMAL":2750*269.7/1e9}
rnd=random.Random(3)
worst=0; neg=0; cnt=0
for iso in ["USA","IND","ARG","MNG","DJI","NZL","CHN","WOR","SWT","BRA"]:
  for strat in ["baseline","reduced","feed_only_ruminants"]:
    for mult in [0.0,0.3,0.7,1.0,3.0]:
        N=36
        # first get requirement with zero feed run
        with contextlib.redirect_stdout(io.StringIO()):
            try:
                animals,fu,gu = ap.main(iso, mk([0]*N), mk([0]*N), strat, None, 0, kd)
            except BaseException as e:
                print(iso,strat,"EXC",type(e).__name__,str(e)[:80]); break
        req = sum(a.net_energy_required_per_month()*a.population[0] for a in animals)/0.8
        with contextlib.redirect_stdout(io.StringIO()):
            animals,fu,gu = ap.main(iso, mk([req*mult*0.5]*N), mk([req*mult*0.5]*N), strat, None, 0, kd)
        byname={a.animal_type:a for a in animals}
        for a in animals:
            P=np.array(a.population); n=len(P)-1
            births=np.array(a.births_animals_month); tp=np.array(a.transfer_population)
            od=np.array(a.other_death_causes_other_than_starving)[1:]; sl=np.array(a.slaughter)[1:]
            st=np.array(a.other_death_starving)[1:]; hk=np.array(a.homekill_healthy_this_month)[1:]+np.array(a.homekill_starving_this_month)[1:]
            ret=np.array(a.retiring_milk_animals) if a.animal_function=="milk" else np.zeros(n)
            tin = tp if a.animal_function!="milk" else np.zeros(n)
            assert len(births)==n and len(tp)==n, (len(births),len(tp),n)
            pre = P[:-1]+births+tin-ret-od
            exp = np.maximum(0,np.maximum(0,pre-sl)-st-hk)
            res=np.max(np.abs(exp-P[1:])/np.maximum(1,P[:-1])); worst=max(worst,res); cnt+=1
            if res>1e-9: print("LEDGER",iso,strat,mult,a.animal_type,res, "month",int(np.argmax(np.abs(exp-P[1:]))))
            sp=np.array(a.population_starving_pre_slaughter)
            if (sp< -1e-9).any(): neg+=1
            for arr,nm in ((births,"births"),(od,"od"),(sl,"sl"),(st,"st"),(P,"pop")):
                if (arr< -1e-9).any(): print("NEGFLOW",iso,strat,mult,a.animal_type,nm,arr.min())
            if a.animal_function=="milk":
                m=byname.get("meat_"+a.animal_species)
                if m is not None:
                    d=np.max(np.abs(np.array(m.transfer_population)-(np.array(a.retiring_milk_animals)+np.array(a.transfer_births))))
                    d2=np.max(np.abs(np.array(m.transfer_population)+np.array(a.transfer_population)))
                    if d>1e-9 or d2>1e-9: print("TRANSFER",iso,a.animal_type,d,d2)
print("species-runs",cnt,"worst ledger residual",worst,"negative starving series",neg)
