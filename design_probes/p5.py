import sys; sys.path.insert(0,"/var/tmp/vw/proto")
import numpy as np, pandas as pd, io, contextlib, copy, random, multiprocessing as mp, time
import p4
def run(args):
    iso, opt, tag = args
    import cap
    caps = cap.install()
    from src.scenarios.run_model_no_trade import ScenarioRunnerNoTrade
    r = ScenarioRunnerNoTrade()
    try:
        with contextlib.redirect_stdout(io.StringIO()):
            r.run_model_no_trade(title=tag, create_pptx_with_all_countries=False, show_country_figures=False, show_map_figures=False, add_map_slide_to_pptx=False, scenario_option=copy.deepcopy(opt), countries_list=[iso], return_results=True)
    except BaseException as e:
        return [(tag, iso, "EXC", str(e)[:50])]
    out=[]
    for k, cp in enumerate(caps):
        if cp["type"]!="to_humans": continue
        t=time.time(); res, idx, z = cap.ref_lp_humans(cp["consts"], cp["tc"]); dt=time.time()-t
        ref = -res.fun if res.status==0 else float("nan")
        c=cp["consts"]; tc=cp["tc"]; v=cp["vals"]
        # meat cumulative audit
        viol=0.0
        if c["ADD_MEAT"]:
            w=1/(1-c["MEAT_WASTE_RETAIL"]/100)
            cum_e=np.cumsum(v["meat_eaten"]*w); cum_s=np.cumsum(tc["each_month_meat_slaughtered"].kcals)
            viol=float(np.max(cum_e-cum_s))
        out.append((tag, iso, k, opt["scenario"], opt["ratio_stocks_untouched"], round(cp["obj"],6), round(ref,6), f"{abs(ref-cp['obj'])/max(1,abs(ref)):.1e}", res.status, round(dt,2), "meat_cum_excess=%.3g"%viol))
    return out
if __name__=="__main__":
    t = pd.read_csv("data/no_food_trade/computer_readable_combined.csv"); isos=t.iso3.tolist()
    rnd = random.Random(11); jobs=[]
    for i in range(48):
        opt = {k: rnd.choice(v) for k,v in p4.FAM.items()}
        opt.update(scale="country", fat="not_required", protein="not_required", NMONTHS=rnd.choice([48,72,96,120]))
        jobs.append((rnd.choice(isos), opt, f"k{i}"))
    with mp.Pool(16) as p: res = p.map(run, jobs, chunksize=1)
    rows=[r for rr in res for r in rr]
    bad=[r for r in rows if len(r)>4 and (r[8]!=0 or float(r[7])>2e-5)]
    print("instances", len(rows), "disagree/unsolved", len(bad))
    for r in rows[:12]: print(r)
    print("--- disagreements"); 
    for r in bad[:30]: print(r)
    ex=[r for r in rows if len(r)>4 and float(r[-1].split("=")[1])>1e-6]
    print("--- meat cumulative excess cases", len(ex))
    for r in ex[:20]: print(r)
