"""throw-away: feed-maximising round reference (HiGHS)"""
import numpy as np
from scipy.optimize import linprog
from scipy.sparse import lil_matrix
def ref_lp_animals(c, tc):
    N = c["NMONTHS"]; inp = c["inputs"]; carry = c["STORE_FOOD_BETWEEN_YEARS"]
    idx = {}; n = 0
    def new(name):
        nonlocal n
        idx[name] = np.arange(n, n + N); n += N
    uses = ("h", "f", "b")
    if c["ADD_STORED_FOOD"]: [new("sf_" + u) for u in uses]; new("sf_end")
    if c["ADD_OUTDOOR_GROWING"]: [new("cr_" + u) for u in uses]; new("cr_store")
    if c["ADD_MEAT"]: new("me")
    if c["ADD_METHANE_SCP"]: [new("scp_" + u) for u in uses]
    if c["ADD_CELLULOSIC_SUGAR"]: [new("cs_" + u) for u in uses]
    if c["ADD_SEAWEED"]: [new("sw_" + u) for u in uses]; new("sw_W"); new("sw_A")
    Aub, bub, Aeq, beq = [], [], [], []
    lo = np.zeros(n); hi = np.full(n, np.inf)
    K = c["SEAWEED_KCALS"]; wr = lambda key: 1.0 / (1.0 - c[key] / 100.0)
    feedcap = np.asarray(tc["feed"].kcals, float); biocap = np.asarray(tc["biofuel"].kcals, float)
    maxf = np.asarray(tc["max_feed_that_could_be_used"].kcals, float); maxb = np.asarray(tc["max_biofuel_that_could_be_used"].kcals, float)
    mh = tc["min_human_food_consumption"]
    band = 1e-4 if c["POP"] < 1e7 else 1e-5
    conv = c["POP"] * 30 / 1e9
    pins = {"sf_h": ("stored_food", 1.0), "cr_h": ("outdoor_crops", 1.0), "me": ("meat", 1.0), "scp_h": ("methane_scp", 1.0), "cs_h": ("cellulosic_sugar", 1.0), "sw_h": ("seaweed", K)}
    fcoef = [("sf", 1.0), ("cr", 1.0), ("scp", 1.0), ("cs", 1.0), ("sw", K)]
    cost = np.zeros(n)
    for m in range(N):
        for vname, (fname, coef) in pins.items():
            if vname in idx:
                v = float(np.asarray(mh[fname].kcals)[m]) * conv
                lo[idx[vname][m]] = (1 - band) * v / coef; hi[idx[vname][m]] = (1 + band) * v / coef
        for u, cap_series, w in (("f", maxf, 2 / 3), ("b", maxb, 1 / 3)):
            r = {}
            for f_, coef in fcoef:
                if f_ + "_" + u in idx: r[idx[f_ + "_" + u][m]] = coef; cost[idx[f_ + "_" + u][m]] = -w * coef
            if r:
                Aub.append(r); bub.append(cap_series[m])
                if m > 0:
                    rr = dict(r)
                    for f_, coef in fcoef:
                        if f_ + "_" + u in idx: rr[idx[f_ + "_" + u][m - 1]] = -coef
                    Aub.append(rr); bub.append(0.0)
        if "sf_h" in idx:
            S0 = float(c["stored_food"].initial_available.kcals); w = wr("STORED_FOOD_WASTE_RETAIL")
            led = {idx["sf_end"][m]: 1.0, idx["sf_h"][m]: w, idx["sf_f"][m]: 1.0, idx["sf_b"][m]: 1.0}
            if carry or m <= 12:
                if m > 0: led[idx["sf_end"][m - 1]] = -1.0
                Aeq.append(led); beq.append(S0 if m == 0 else 0.0)
            else:
                for u in uses: hi[idx["sf_" + u][m]] = min(hi[idx["sf_" + u][m]], 0.0)
        if "cr_h" in idx:
            w = wr("CROP_WASTE_RETAIL"); prod = float(tc["outdoor_crops"].production.kcals[m])
            led = {idx["cr_store"][m]: 1.0, idx["cr_h"][m]: w, idx["cr_f"][m]: 1.0, idx["cr_b"][m]: 1.0}
            if m > 0: led[idx["cr_store"][m - 1]] = -1.0
            Aeq.append(led); beq.append(prod)
        if "me" in idx:
            w = wr("MEAT_WASTE_RETAIL")
            cap = float(tc["max_consumed_culled_kcals_each_month"][m]) if carry else float(tc["each_month_meat_slaughtered"].kcals[m])
            Aub.append({idx["me"][m]: w}); bub.append(cap)
        for f_, wk, key in (("scp", "SCP_RETAIL_WASTE", "methane_scp"), ("cs", "CELL_SUGAR_RETAIL_WASTE", "cellulosic_sugar")):
            if f_ + "_h" in idx:
                Aub.append({idx[f_ + "_h"][m]: wr(wk), idx[f_ + "_f"][m]: 1.0, idx[f_ + "_b"][m]: 1.0}); bub.append(float(tc[key].kcals[m]))
        if "sw_h" in idx:
            W, A = idx["sw_W"], idx["sw_A"]; built = float(tc["built_area"][m]); W0 = c["INITIAL_SEAWEED"]; A0 = c["INITIAL_BUILT_SEAWEED_AREA"]
            lo[W[m]] = W0; hi[W[m]] = c["MAXIMUM_DENSITY"] * built; lo[A[m]] = A0; hi[A[m]] = built
            if m == 0:
                hi[W[0]] = W0; hi[A[0]] = A0
                for u in uses: lo[idx["sw_" + u][0]] = 0; hi[idx["sw_" + u][0]] = 0
            else:
                g = float(tc["growth_rates_monthly"][m]) / 100.0; loss = c["MINIMUM_DENSITY"] * c["HARVEST_LOSS"] / 100.0
                Aeq.append({W[m]: 1.0, W[m - 1]: -(1 + g), idx["sw_h"][m]: wr("SEAWEED_WASTE_RETAIL"), idx["sw_f"][m]: 1.0, idx["sw_b"][m]: 1.0, A[m]: loss, A[m - 1]: -loss}); beq.append(0.0)
        for f_, nm, coef in (("sw", "SEAWEED", K), ("scp", "METHANE_SCP", 1.0), ("cs", "CELLULOSIC_SUGAR", 1.0)):
            if f_ + "_h" not in idx: continue
            for u, charge, tag in (("f", feedcap, "FEED"), ("b", biocap, "BIOFUEL")):
                capu = inp["MAX_" + nm + "_AS_PERCENT_KCALS_" + tag] / 100.0
                hi[idx[f_ + "_" + u][m]] = min(hi[idx[f_ + "_" + u][m]], capu * charge[m] / coef)
    if "me" in idx and carry:
        Aub.append({i: wr("MEAT_WASTE_RETAIL") for i in idx["me"]}); bub.append(float(c["meat_summed_consumption"]))
    def mat(rows):
        M = lil_matrix((max(len(rows),1), n))
        for i, r in enumerate(rows):
            for j, v in r.items(): M[i, j] = v
        return M.tocsr()
    hi = np.maximum(hi, lo)
    kw = {}
    if Aub: kw.update(A_ub=mat(Aub), b_ub=np.array(bub))
    if Aeq: kw.update(A_eq=mat(Aeq), b_eq=np.array(beq))
    res = linprog(cost, bounds=list(zip(lo, hi)), method="highs", **kw)
    return res
