import sys; sys.path.insert(0,"/var/tmp/vw/proto")
import numpy as np, pandas as pd, io, contextlib, copy, random, multiprocessing as mp
import p4
def run(args):
    iso, opt, tag = args
    import cap
    caps = cap.install()
    from src.optimizer import interpret_results as ir
    heads=[]
    orig=ir.Interpreter.interpret_results
    def w(self,ex,title="Untitled"):
        out=orig(self,ex,title); heads.append(out.percent_people_fed); return out
    ir.Interpreter.interpret_results=w
    from src.scenarios.run_model_no_trade import ScenarioRunnerNoTrade
    r = ScenarioRunnerNoTrade()
    try:
        with contextlib.redirect_stdout(io.StringIO()):
            r.run_model_no_trade(title=tag, create_pptx_with_all_countries=False, show_country_figures=False, show_map_figures=False, add_map_slide_to_pptx=False, scenario_option=copy.deepcopy(opt), countries_list=[iso], return_results=True)
    except BaseException as e:
        return [(tag, iso, "EXC", str(e)[:70])]
    out=[]
    for k,(cp,h) in enumerate(zip(caps,heads)):
        if cp["type"]!="to_humans": continue
        out.append((iso, k, opt["scenario"], round(cp["obj"],5), round(h,5), "%.1e"%(abs(h-cp["obj"])/max(1,cp["obj"]))))
    return out
if __name__=="__main__":
    t = pd.read_csv("data/no_food_trade/computer_readable_combined.csv"); isos=t.iso3.tolist()
    rnd = random.Random(21); jobs=[]
    for iso in ["EST","LUX","CYP","GUY","SWT"]+rnd.sample(isos,27):
      for j in range(3):
        opt = {k: rnd.choice(v) for k,v in p4.FAM.items()}
        opt.update(scale="country", fat="not_required", protein="not_required", NMONTHS=120)
        jobs.append((iso, opt, f"h{iso}{j}"))
    with mp.Pool(16) as p: res = p.map(run, jobs, chunksize=1)
    rows=[r for rr in res for r in rr]
    bad=[r for r in rows if r[2]=="EXC" or float(r[5])>1e-4]
    print("rows",len(rows),"bad",len(bad))
    for r in bad[:40]: print(r)
    print(sorted(set(float(r[5]) for r in rows if r[2]!="EXC"))[-8:])
