import numpy as np, pandas as pd, io, contextlib, copy, sys, multiprocessing as mp
def run(args):
    iso, shutoff, scen = args
    from src.scenarios.run_model_no_trade import ScenarioRunnerNoTrade
    from src.scenarios import run_scenario as rs
    from src.scenarios import run_scenarios_from_yaml as ry
    cfg = ry.load_config_data("argentina.yaml")
    opt = copy.deepcopy(cfg["simulations"]["argentina_net_nuclear_winter"]); opt["NMONTHS"]=120
    opt["shutoff"]=shutoff; opt["scenario"]=scen
    cap = {}
    orig1 = rs.ScenarioRunner.run_round_1
    def w1(self,*a,**k):
        out = orig1(self,*a,**k); cap["r1"]=out[1]; return out
    rs.ScenarioRunner.run_round_1 = w1
    r = ScenarioRunnerNoTrade()
    try:
        with contextlib.redirect_stdout(io.StringIO()):
            out = r.run_model_no_trade(title="t", create_pptx_with_all_countries=False, show_country_figures=False, show_map_figures=False, add_map_slide_to_pptx=False, scenario_option=opt, countries_list=[iso], return_results=True)
        res = list(out[3].values())[0]
        fb = res.feed_and_biofuels_sum.kcals
        return (iso, shutoff, scen, round(cap.get("r1",float('nan')),3), round(res.percent_people_fed,3), round(float(np.max(fb)),3))
    except BaseException as e:
        return (iso, shutoff, scen, "EXC", type(e).__name__, str(e)[:80])
if __name__=="__main__":
    t = pd.read_csv("data/no_food_trade/computer_readable_combined.csv")
    isos = t.iso3.tolist()[::4]
    jobs = [(i,s,"no_resilient_foods") for i in isos for s in ["continued","long_delayed_shutoff"]]
    with mp.Pool(16) as p:
        for r in p.imap_unordered(run, jobs):
            iso,sh,sc,r1,r3,fb = r
            flag = ""
            if r1=="EXC": flag="EXC"
            else:
                if r3 < 100-0.1 and fb > 0.1: flag += " FEED_WHILE_STARVING"
                if r3 < 100-0.1 and r3 < r1 - 0.01: flag += " R3<R1"
                if r1 >= 100 and r3 < 100-0.01: flag += " BELOW_T"
            print(r, flag)
