import numpy as np, pandas as pd, io, contextlib, copy, sys, hashlib, multiprocessing as mp, random, time, traceback
FAM = dict(
 scenario=["no_resilient_foods","all_resilient_foods","all_resilient_foods_and_more_area","seaweed","methane_scp","cellulosic_sugar","industrial_foods","relocated_crops","greenhouse"],
 stored_food=["zero","baseline"],
 ratio_stocks_untouched=["zero","no_stored_between_years","baseline","baseline_no_stored_between_years"],
 shutoff=["immediate","one_month_delayed_shutoff","short_delayed_shutoff","long_delayed_shutoff","continued","continued_after_10_percent_fed","long_delayed_shutoff_after_10_percent_fed"],
 waste=["zero","tripled_prices_in_country","doubled_prices_in_country","baseline_in_country"],
 nutrition=["baseline","catastrophe"], intake_constraints=["enabled","disabled_for_humans"],
 seasonality=["no_seasonality","country"], grasses=["baseline","country_nuclear_winter","all_crops_die_instantly"],
 fish=["zero","nuclear_winter","baseline"], crop_disruption=["zero","country_nuclear_winter","all_crops_die_instantly"],
 cull=["do_eat_culled","dont_eat_culled"], meat_strategy=["reduce_breeding","baseline_breeding","feed_only_ruminants"])
def digest(res):
    h = hashlib.sha256()
    h.update(np.float64(res.percent_people_fed).tobytes())
    for k,v in sorted(vars(res).items()):
        if hasattr(v,"kcals") and isinstance(v.kcals,np.ndarray): h.update(k.encode()); h.update(np.ascontiguousarray(v.kcals,dtype=np.float64).tobytes())
    for k,v in sorted(res.meat_dictionary.items()): h.update(np.asarray(v,dtype=np.float64).tobytes())
    for k,v in sorted(res.animal_population_dictionary.items()): h.update(np.asarray(v,dtype=np.float64).tobytes())
    return h.hexdigest()[:16]
def run(args):
    iso, opt, tag = args
    from src.scenarios.run_model_no_trade import ScenarioRunnerNoTrade
    r = ScenarioRunnerNoTrade(); t=time.time()
    try:
        with contextlib.redirect_stdout(io.StringIO()):
            out = r.run_model_no_trade(title=tag, create_pptx_with_all_countries=False, show_country_figures=False, show_map_figures=False, add_map_slide_to_pptx=False, scenario_option=copy.deepcopy(opt), countries_list=[iso], return_results=True)
        res = list(out[3].values())[0]
        return (tag, iso, "OK", round(res.percent_people_fed,4), digest(res), round(time.time()-t,1))
    except BaseException as e:
        tb = traceback.extract_tb(sys.exc_info()[2]); fr=[f for f in tb if "/src/" in f.filename][-1]
        return (tag, iso, "EXC", type(e).__name__, f"{fr.filename.split('/src/')[-1]}:{fr.lineno} {str(e)[:60]!r}", round(time.time()-t,1))
if __name__=="__main__":
    t = pd.read_csv("data/no_food_trade/computer_readable_combined.csv"); isos=t.iso3.tolist()
    rnd = random.Random(7); jobs=[]
    for i in range(96):
        opt = {k: rnd.choice(v) for k,v in FAM.items()}
        opt.update(scale="country", fat="not_required", protein="not_required", NMONTHS=rnd.choice([48,72,96,120]))
        jobs.append((rnd.choice(isos), opt, f"j{i}"))
    with mp.Pool(16) as p: res1 = p.map(run, jobs, chunksize=1)
    ok=[r for r in res1 if r[2]=="OK"]; ex=[r for r in res1 if r[2]!="OK"]
    print("OK",len(ok),"EXC",len(ex), "mean time", np.mean([r[-1] for r in res1]))
    from collections import Counter
    print(Counter((r[3],r[4]) for r in ex).most_common(12))
    for r in ex[:8]: print(r, {k:v for k,v in jobs[int(r[0][1:])][1].items() if k in("scenario","ratio_stocks_untouched","shutoff","NMONTHS","crop_disruption","stored_food","cull")})
    # determinism: rerun the OK ones in a different pool order (different process history)
    jobs2=[jobs[int(r[0][1:])] for r in ok][::-1]
    with mp.Pool(4) as p: res2 = p.map(run, jobs2, chunksize=8)
    d1={r[0]:r[4] for r in ok}; d2={r[0]:r[4] for r in res2}
    print("digest mismatches between histories:", [k for k in d1 if d1[k]!=d2.get(k)])
