import sys; sys.path.insert(0,"/var/tmp/vw/proto")
import numpy as np, pandas as pd, io, contextlib, copy, random, multiprocessing as mp, time
import p4
def run(args):
    iso, opt, tag = args
    import cap, ref2
    caps = cap.install()
    from src.scenarios.run_model_no_trade import ScenarioRunnerNoTrade
    r = ScenarioRunnerNoTrade()
    try:
        with contextlib.redirect_stdout(io.StringIO()):
            r.run_model_no_trade(title=tag, create_pptx_with_all_countries=False, show_country_figures=False, show_map_figures=False, add_map_slide_to_pptx=False, scenario_option=copy.deepcopy(opt), countries_list=[iso], return_results=True)
    except BaseException as e:
        return [(tag, iso, "EXC", str(e)[:50])]
    out=[]
    for k, cp in enumerate(caps):
        if cp["type"]!="to_animals": continue
        try:
            res = ref2.ref_lp_animals(cp["consts"], cp["tc"])
            ref = -res.fun if res.status==0 else float("nan")
            out.append((tag, iso, opt["scenario"], opt["shutoff"], opt["ratio_stocks_untouched"], round(cp["obj"],5), round(ref,5), "%.1e"%(abs(ref-cp["obj"])/max(1,abs(ref))), res.status))
        except BaseException as e:
            out.append((tag, iso, "REFEXC", repr(e)[:120]))
    return out
if __name__=="__main__":
    t = pd.read_csv("data/no_food_trade/computer_readable_combined.csv"); isos=t.iso3.tolist()
    rnd = random.Random(13); jobs=[]
    for i in range(64):
        opt = {k: rnd.choice(v) for k,v in p4.FAM.items()}
        opt["shutoff"]=rnd.choice(["continued","long_delayed_shutoff","short_delayed_shutoff","continued_after_10_percent_fed","long_delayed_shutoff_after_10_percent_fed"])
        opt.update(scale="country", fat="not_required", protein="not_required", NMONTHS=rnd.choice([48,120]))
        jobs.append((rnd.choice(isos), opt, f"a{i}"))
    with mp.Pool(16) as p: res = p.map(run, jobs, chunksize=1)
    rows=[r for rr in res for r in rr]
    print("round-2 instances", len(rows))
    bad=[r for r in rows if len(r)<9 or r[8]!=0 or float(r[7])>2e-5]
    for r in rows[:10]: print(r)
    print("--- disagree", len(bad))
    for r in bad[:25]: print(r)
