import sys; sys.path.insert(0,"/var/tmp/vw/proto")
import numpy as np, pandas as pd, io, contextlib, copy, random, multiprocessing as mp, time
import p4
def scale_instance(c, tc, s):
    c=copy.deepcopy(c); tc=copy.deepcopy(tc)
    c["POP"]*=s; c["POP_BILLIONS"]*=s; c["BILLION_KCALS_NEEDED"]*=s
    for k in ("THOU_TONS_FAT_NEEDED","THOU_TONS_PROTEIN_NEEDED"): c[k]*=s
    sf=c["stored_food"].initial_available; sf.kcals=sf.kcals*s
    c["meat_summed_consumption"]*=s
    c["INITIAL_SEAWEED"]*=s; c["INITIAL_BUILT_SEAWEED_AREA"]*=s
    tc["built_area"]=np.asarray(tc["built_area"],float)*s
    for k in ("feed","biofuel","methane_scp","cellulosic_sugar","greenhouse_crops","each_month_meat_slaughtered"):
        tc[k].kcals=np.asarray(tc[k].kcals,float)*s
    tc["outdoor_crops"].production.kcals=np.asarray(tc["outdoor_crops"].production.kcals,float)*s
    tc["fish"].to_humans.kcals=np.asarray(tc["fish"].to_humans.kcals,float)*s
    tc["milk_kcals"]=np.asarray(tc["milk_kcals"],float)*s
    tc["max_consumed_culled_kcals_each_month"]=np.asarray(tc["max_consumed_culled_kcals_each_month"],float)*s
    return c,tc
def run(args):
    iso, opt, tag = args
    import cap
    caps = cap.install()
    from src.scenarios.run_model_no_trade import ScenarioRunnerNoTrade
    from src.optimizer.optimizer import Optimizer
    r = ScenarioRunnerNoTrade()
    try:
        with contextlib.redirect_stdout(io.StringIO()):
            r.run_model_no_trade(title=tag, create_pptx_with_all_countries=False, show_country_figures=False, show_map_figures=False, add_map_slide_to_pptx=False, scenario_option=copy.deepcopy(opt), countries_list=[iso], return_results=True)
    except BaseException as e:
        return [(tag, iso, "EXC", str(e)[:50])]
    cp=[c for c in caps if c["type"]=="to_humans"][-1]
    base=cp["obj"]; out=[tag,iso,opt["scenario"],round(base,5)]
    caps.clear()
    for s in (1e-3,1e-2,0.1,10,100,1000):
        c2,tc2=scale_instance(cp["consts"],cp["tc"],s)
        try:
            with contextlib.redirect_stdout(io.StringIO()):
                o=Optimizer(c2,tc2).optimize_to_humans(c2,tc2)
            out.append("%g:%.1e"%(s,abs(o[3]-base)/max(1,base)))
        except BaseException as e:
            out.append("%g:EXC"%s)
    return [tuple(out)]
if __name__=="__main__":
    t = pd.read_csv("data/no_food_trade/computer_readable_combined.csv"); isos=t.iso3.tolist()
    rnd = random.Random(5); jobs=[]
    for i in range(32):
        opt = {k: rnd.choice(v) for k,v in p4.FAM.items()}
        opt.update(scale="country", fat="not_required", protein="not_required", NMONTHS=rnd.choice([48,120]))
        jobs.append((rnd.choice(isos), opt, f"s{i}"))
    with mp.Pool(16) as p: res = p.map(run, jobs, chunksize=1)
    for rr in res:
        for r in rr: print(r)
