"""throw-away prototype: capture optimiser instances + independent LP (HiGHS)"""
import numpy as np, copy, io, contextlib
def install():
    from src.optimizer import optimizer as om
    caps = []
    def wrap(name, typ):
        orig = getattr(om.Optimizer, name)
        def w(self, *a, **k):
            out = orig(self, *a, **k)
            model, variables, mc, pf = out
            vals = {}
            for kk, v in variables.items():
                if isinstance(v, list):
                    vals[kk] = np.array([x.varValue if hasattr(x, "varValue") else float(x) for x in v], dtype=float)
            caps.append(dict(type=typ, consts=self.consts_for_optimizer, tc=self.time_consts, vals=vals, obj=pf))
            return out
        setattr(om.Optimizer, name, w)
    wrap("optimize_to_humans", "to_humans"); wrap("optimize_feed_to_animals", "to_animals")
    return caps

def ref_lp_humans(c, tc):
    """independent formulation of the human-maximising round; returns optimum (percent fed)"""
    from scipy.optimize import linprog
    from scipy.sparse import lil_matrix
    N = c["NMONTHS"]; need = c["BILLION_KCALS_NEEDED"]; inp = c["inputs"]
    carry = c["STORE_FOOD_BETWEEN_YEARS"]
    idx = {}; n = 0
    def new(name):
        nonlocal n
        idx[name] = np.arange(n, n + N); n += N
    uses = ("h", "f", "b")
    foods = []
    if c["ADD_STORED_FOOD"]: foods.append("sf"); [new("sf_" + u) for u in uses]; new("sf_end")
    if c["ADD_OUTDOOR_GROWING"]: foods.append("cr"); [new("cr_" + u) for u in uses]; new("cr_store")
    if c["ADD_MEAT"]: new("me")
    if c["ADD_METHANE_SCP"]: foods.append("scp"); [new("scp_" + u) for u in uses]
    if c["ADD_CELLULOSIC_SUGAR"]: foods.append("cs"); [new("cs_" + u) for u in uses]
    if c["ADD_SEAWEED"]: foods.append("sw"); [new("sw_" + u) for u in uses]; new("sw_W"); new("sw_A")
    z = n; n += 1
    Aub, bub, Aeq, beq = [], [], [], []
    def row(): return {}
    K = c["SEAWEED_KCALS"]
    wr = lambda key: 1.0 / (1.0 - c[key] / 100.0)
    feed = np.asarray(tc["feed"].kcals, float); bio = np.asarray(tc["biofuel"].kcals, float)
    milk = np.asarray(tc["milk_kcals"], float); gh = np.asarray(tc["greenhouse_crops"].kcals, float)
    fish = np.asarray(tc["fish"].to_humans.kcals, float)
    for m in range(N):
        # z <= consumed_m
        r = {z: 1.0}; const = (milk[m] + gh[m] + fish[m]) / need * 100
        for f_, coef in (("sf", 1), ("cr", 1), ("scp", 1), ("cs", 1), ("sw", K)):
            if f_ + "_h" in idx: r[idx[f_ + "_h"][m]] = -coef / need * 100
        if "me" in idx: r[idx["me"][m]] = -1.0 / need * 100
        Aub.append(r); bub.append(const)
        # feed / biofuel charge
        for u, charge in (("f", feed), ("b", bio)):
            r = {}
            for f_, coef in (("sf", 1), ("cr", 1), ("scp", 1), ("cs", 1), ("sw", K)):
                if f_ + "_" + u in idx: r[idx[f_ + "_" + u][m]] = coef
            if r: Aeq.append(r); beq.append(charge[m])
        # stored food
        if "sf_h" in idx:
            S0 = float(np.atleast_1d(c["stored_food"].initial_available.kcals)[0]) if np.ndim(c["stored_food"].initial_available.kcals) else float(c["stored_food"].initial_available.kcals)
            w = wr("STORED_FOOD_WASTE_RETAIL")
            led = {idx["sf_end"][m]: 1.0, idx["sf_h"][m]: w, idx["sf_f"][m]: 1.0, idx["sf_b"][m]: 1.0}
            if carry or m <= 12:
                if m > 0: led[idx["sf_end"][m - 1]] = -1.0
                Aeq.append(led); beq.append(S0 if m == 0 else 0.0)
            else:
                for u in uses: Aeq.append({idx["sf_" + u][m]: 1.0}); beq.append(0.0)
            if carry and m == N - 1: Aeq.append({idx["sf_end"][m]: 1.0}); beq.append(0.0)
        if "cr_h" in idx:
            w = wr("CROP_WASTE_RETAIL"); prod = float(tc["outdoor_crops"].production.kcals[m])
            led = {idx["cr_store"][m]: 1.0, idx["cr_h"][m]: w, idx["cr_f"][m]: 1.0, idx["cr_b"][m]: 1.0}
            if m > 0: led[idx["cr_store"][m - 1]] = -1.0
            Aeq.append(led); beq.append(prod)
            if m == N - 1: Aeq.append({idx["cr_store"][m]: 1.0}); beq.append(0.0)
        if "me" in idx:
            w = wr("MEAT_WASTE_RETAIL")
            if carry:
                Aub.append({idx["me"][m]: w}); bub.append(float(tc["max_consumed_culled_kcals_each_month"][m]))
            else:
                Aub.append({idx["me"][m]: w}); bub.append(float(tc["each_month_meat_slaughtered"].kcals[m]))
        for f_, wk, key in (("scp", "SCP_RETAIL_WASTE", "methane_scp"), ("cs", "CELL_SUGAR_RETAIL_WASTE", "cellulosic_sugar")):
            if f_ + "_h" in idx:
                Aub.append({idx[f_ + "_h"][m]: wr(wk), idx[f_ + "_f"][m]: 1.0, idx[f_ + "_b"][m]: 1.0}); bub.append(float(tc[key].kcals[m]))
        if "sw_h" in idx:
            W, A = idx["sw_W"], idx["sw_A"]
            built = float(tc["built_area"][m]); W0 = c["INITIAL_SEAWEED"]; A0 = c["INITIAL_BUILT_SEAWEED_AREA"]
            Aub.append({W[m]: -1.0}); bub.append(-W0)
            Aub.append({W[m]: 1.0}); bub.append(c["MAXIMUM_DENSITY"] * built)
            Aub.append({A[m]: -1.0}); bub.append(-A0)
            Aub.append({A[m]: 1.0}); bub.append(built)
            if m == 0:
                Aeq.append({W[0]: 1.0}); beq.append(W0); Aeq.append({A[0]: 1.0}); beq.append(A0)
                for u in uses: Aeq.append({idx["sw_" + u][0]: 1.0}); beq.append(0.0)
            else:
                g = float(tc["growth_rates_monthly"][m]) / 100.0
                loss = c["MINIMUM_DENSITY"] * c["HARVEST_LOSS"] / 100.0
                Aeq.append({W[m]: 1.0, W[m - 1]: -(1 + g), idx["sw_h"][m]: wr("SEAWEED_WASTE_RETAIL"), idx["sw_f"][m]: 1.0, idx["sw_b"][m]: 1.0, A[m]: loss, A[m - 1]: -loss}); beq.append(0.0)
        # intake caps
        need0 = c["POP"] * c["KCALS_MONTHLY"] / 1e9
        for f_, nm, coef in (("sw", "SEAWEED", K), ("scp", "METHANE_SCP", 1.0), ("cs", "CELLULOSIC_SUGAR", 1.0)):
            if f_ + "_h" not in idx: continue
            cap = inp["MAX_" + nm + "_AS_PERCENT_KCALS_HUMANS"] / 100.0
            Aub.append({idx[f_ + "_h"][m]: coef}); bub.append(cap * need0)
            # <= cap * consumed_m * need/100
            r = {idx[f_ + "_h"][m]: coef}
            for g_, cf in (("sf", 1), ("cr", 1), ("scp", 1), ("cs", 1), ("sw", K)):
                if g_ + "_h" in idx: r[idx[g_ + "_h"][m]] = r.get(idx[g_ + "_h"][m], 0.0) - cap * cf
            if "me" in idx: r[idx["me"][m]] = -cap
            Aub.append(r); bub.append(cap * (milk[m] + gh[m] + fish[m]))
            for u, charge, tag in (("f", feed, "FEED"), ("b", bio, "BIOFUEL")):
                capu = inp["MAX_" + nm + "_AS_PERCENT_KCALS_" + tag] / 100.0
                Aub.append({idx[f_ + "_" + u][m]: coef}); bub.append(capu * charge[m])
    if "me" in idx and carry:
        w = wr("MEAT_WASTE_RETAIL")
        Aub.append({i: w for i in idx["me"]}); bub.append(float(c["meat_summed_consumption"]))
    def mat(rows):
        M = lil_matrix((len(rows), n))
        for i, r in enumerate(rows):
            for j, v in r.items(): M[i, j] = v
        return M.tocsr()
    cost = np.zeros(n); cost[z] = -1.0
    res = linprog(cost, A_ub=mat(Aub), b_ub=np.array(bub), A_eq=mat(Aeq), b_eq=np.array(beq), bounds=(0, None), method="highs")
    return res, idx, z
