#!/venv/bin/python
"""Sensitivity protocol: apply each hand-written mutant (exact string replacement) to /repo's working tree, run the quick tier of the
check for its property, record whether a VIOLATION was reported, and ALWAYS restore the tree.  Results -> sensitivity/RESULTS.md

    run.py [ID ...]        (default: all mutants)
"""
import glob
import json
import os
import subprocess
import sys

HERE = os.path.dirname(os.path.abspath(__file__))
VERIF = os.path.dirname(HERE)
M = json.load(open(os.path.join(HERE, "mutants.json")))
# SENS_REPO=<scratch worktree of /repo>: mutate that tree and point the checks at it (VERIF_REPO) instead of touching /repo
REPO = os.environ.get("SENS_REPO", "/repo")
ENV = dict(os.environ, VERIF_REPO=REPO) if REPO != "/repo" else dict(os.environ)


def main():
    want = set(a.upper() for a in sys.argv[1:])
    if subprocess.run(["git", "-C", REPO, "status", "--porcelain", "--untracked-files=no"], capture_output=True, text=True).stdout.strip():
        print("refusing: /repo has local modifications")
        return 2
    rows = []
    for m in M:
        if want and m["property"] not in want and m["id"].upper() not in want:
            continue
        path = os.path.join(REPO, m["file"])
        s = open(path).read()
        if s.count(m["old"]) != 1:
            rows.append((m, "NOT-APPLICABLE (pattern count %d)" % s.count(m["old"]), ""))
            continue
        open(path, "w").write(s.replace(m["old"], m["new"]))
        try:
            checks = m.get("checks", [m["property"]])
            verdicts = []
            for c in checks:
                p = subprocess.run(["/venv/bin/python", os.path.join(VERIF, "check.py"), c, "--tier", "quick", "--no-evidence"],
                                   capture_output=True, text=True, cwd=VERIF, env=ENV)
                v = [l for l in p.stdout.splitlines() if l.startswith("VIOLATION")]
                verdicts.append("%s: %s" % (c, "CAUGHT (" + v[0].split("#", 1)[-1].strip()[:110] + ")" if p.returncode == 1 and v else
                                            ("harness error" if p.returncode == 2 else "missed")))
            rows.append((m, "; ".join(verdicts), ""))
        finally:
            subprocess.run(["git", "-C", REPO, "checkout", "--", "."], check=True)
            for f in glob.glob(os.path.join(VERIF, "replay", "*", "viol-*.json")):
                os.remove(f)
        print(m["id"], rows[-1][1], flush=True)
    with open(os.path.join(HERE, "RESULTS.md"), "a") as f:
        for m, verdict, _ in rows:
            f.write("| %s | %s | %s | %s |\n" % (m["id"], m["property"], m["what"], verdict))
    return 0


if __name__ == "__main__":
    sys.exit(main())
