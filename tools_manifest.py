#!/venv/bin/python
"""Regenerates MANIFEST.json from the table below and validates it against the schema."""
import json, os, subprocess
HERE = os.path.dirname(os.path.abspath(__file__))
CHECKS = {}   # id -> dict(technique, text, note, design_ref)
NA = {}       # id -> reason

def chk(pid, technique, text, note, ref):
    CHECKS[pid] = dict(technique=technique, text=text, note=note, ref=ref)

exec(open(os.path.join(HERE, "manifest_table.py")).read())

props = [json.loads(l)["id"] for l in open(os.path.join(HERE, "properties.jsonl"))]
checks = []
for pid in props:
    if pid not in CHECKS:
        continue
    c = CHECKS[pid]
    checks.append(dict(
        property_id=pid,
        quick_cmd="/venv/bin/python check.py %s --tier quick" % pid,
        thorough_cmd="/venv/bin/python check.py %s --tier thorough" % pid,
        evidence_file="/verif/evidence/%s.json" % pid,
        replay_cmd_template="/venv/bin/python check.py %s --replay {path}" % pid,
        engine="hypothesis-pbt",
        level_claimed=dict(category="exploration", text=c["text"], design_ref=c["ref"]),
        level_note=c["note"], technique=c["technique"]))
man = dict(
    version=1,
    setup_cmd="/venv/bin/python -c 'import hypothesis' 2>/dev/null || /venv/bin/pip install --no-index --find-links /opt/veriftools/wheels hypothesis",
    hooks=dict(guard="ALLFED_INTEGRATED_MODEL_VERIF",
               enable="no source hooks: every observation point is reached by wrapping public methods from the harness process (vlib/model.py); the guard name is reserved and unused",
               baseline_off_cmd="cd /repo && /venv/bin/python -m pytest -ra -q -p no:cacheprovider --timeout=900 --continue-on-collection-errors",
               source_commits=[], add_only=True),
    engines=[dict(name="hypothesis-pbt", path="/verif/check.py", serves_properties=[c["property_id"] for c in checks],
                  kind_free_text="Hypothesis 6.168 property-based testing (flat and stateful), 16 fork-sharded workers, explicit oracles "
                                 "(independent references, differential HiGHS LP, metamorphic laws, ledger audits); every check runs on a scratch copy of /repo's working tree")],
    checks=checks,
    notes="All checks: `check.py <ID> --tier quick|thorough`; exit 0 held / 1 VIOLATION / 2 harness error. VERIF_SEED selects the Hypothesis seed (seed*1000+shard). "
          "Known findings: /verif/known_findings.json (committed, read-only at run time). Seeded mutants: /verif/seeded/.",
    not_applicable=[dict(property_id=p, reason=NA.get(p, "check not built yet in this round; see DESIGN.md")) for p in props if p not in CHECKS])
json.dump(man, open(os.path.join(HERE, "MANIFEST.json"), "w"), indent=1)
import subprocess, sys
subprocess.run(["python3-vt", "-c", "import json,jsonschema,sys; jsonschema.validate(json.load(open(sys.argv[1])), json.load(open(\"/root/.vp/MANIFEST.schema.json\")))", os.path.join(HERE, "MANIFEST.json")], check=True)
print("MANIFEST ok: %d checks, %d not_applicable" % (len(checks), len(man["not_applicable"])))
