#!/venv/bin/python
"""Regenerates MANIFEST.json from the table below and validates it against the schema."""
import json, os, subprocess
HERE = os.path.dirname(os.path.abspath(__file__))
CHECKS = {}   # id -> dict(technique, text, note, design_ref)
NA = {}       # id -> reason

def chk(pid, technique, text, note, ref):
    CHECKS[pid] = dict(technique=technique, text=text, note=note, ref=ref)

exec(open(os.path.join(HERE, "manifest_table.py")).read())

props = [json.loads(l)["id"] for l in open(os.path.join(HERE, "properties.jsonl"))]
checks = []
for pid in props:
    if pid not in CHECKS:
        continue
    c = CHECKS[pid]
    checks.append(dict(
        property_id=pid,
        quick_cmd="/venv/bin/python check.py %s --tier quick" % pid,
        thorough_cmd="/venv/bin/python check.py %s --tier thorough" % pid,
        evidence_file="/verif/evidence/%s.json" % pid,
        replay_cmd_template="/venv/bin/python check.py %s --replay {path}" % pid,
        engine="hypothesis-pbt",
        level_claimed=dict(category="exploration", text=c["text"], design_ref=c["ref"]),
        level_note=c["note"],
        technique=c["technique"] + ("; coverage-guided fuzzing (atheris / libFuzzer through Hypothesis' fuzz_one_input) of the same property bodies"
                                    if pid in ("C07", "C08", "C09", "C15", "C17", "C18") else "")))
man = dict(
    version=1,
    setup_cmd="(/venv/bin/python -c 'import hypothesis' 2>/dev/null || /venv/bin/pip install --no-index --find-links /opt/veriftools/wheels hypothesis) && "
              "(PYTHONPATH=/verif/.deps /venv/bin/python -c 'import atheris' 2>/dev/null || /venv/bin/pip install -q --no-index --find-links /opt/veriftools/wheels --target /verif/.deps atheris || true)",
    hooks=dict(guard="ALLFED_INTEGRATED_MODEL_VERIF",
               enable="no source hooks: every observation point is reached by wrapping public methods from the harness process (vlib/model.py); the guard name is reserved and unused",
               baseline_off_cmd="cd /repo && /venv/bin/python -m pytest -ra -q -p no:cacheprovider --timeout=900 --continue-on-collection-errors",
               source_commits=[], add_only=True),
    engines=[dict(name="hypothesis-pbt", path="/verif/check.py", serves_properties=[c["property_id"] for c in checks],
                  kind_free_text="Hypothesis 6.168 property-based testing (flat and stateful), 16 fork-sharded workers, explicit oracles "
                                 "(independent references, differential HiGHS LP, metamorphic laws, ledger audits); every check runs on a scratch copy of /repo's working tree"),
             dict(name="atheris-coverage-guided", path="/verif/vlib/fuzz.py", serves_properties=["C07", "C08", "C09", "C15", "C17", "C18"],
                  kind_free_text="atheris 3.1 / libFuzzer drives the same property bodies through Hypothesis' fuzz_one_input, guided by branch coverage of the "
                                 "model's modules only (fresh interpreter per worker, fixed -seed/-runs, long-buffer starting corpus); part of check.py "
                                 "(small in the quick tier, 4e4..2e5 executions per target in the thorough tier); skipped with a note in the evidence if atheris "
                                 "cannot be installed from the offline wheelhouse into /verif/.deps")],
    checks=checks,
    notes="All checks: `check.py <ID> --tier quick|thorough`; exit 0 held / 1 VIOLATION / 2 harness error. VERIF_SEED selects the Hypothesis seed (seed*1000+shard). "
          "Known findings: /verif/known_findings.json (committed, read-only at run time). Seeded mutants: /verif/seeded/.",
    not_applicable=[dict(property_id=p, reason=NA.get(p, "check not built yet in this round; see DESIGN.md")) for p in props if p not in CHECKS])
json.dump(man, open(os.path.join(HERE, "MANIFEST.json"), "w"), indent=1)
import subprocess, sys
subprocess.run(["python3-vt", "-c", "import json,jsonschema,sys; jsonschema.validate(json.load(open(sys.argv[1])), json.load(open(\"/root/.vp/MANIFEST.schema.json\")))", os.path.join(HERE, "MANIFEST.json")], check=True)
print("MANIFEST ok: %d checks, %d not_applicable" % (len(checks), len(man["not_applicable"])))
