#!/venv/bin/python
"""Run registered checks against a seeded change.

    tools_seeded.py <seeded-id> [CHECK ...] [--tier quick|thorough] [--seeds 1,2]

Applies /verif/seeded/<id>/patch.diff to /repo's working tree (git apply), runs the named checks (default: the property the
change targets, from meta.json) without touching the evidence files, prints which ones report a VIOLATION, and ALWAYS undoes the
change (git checkout -- . ; git clean of nothing else).  Violation replay files written during the run are removed again.
"""
import glob
import json
import os
import subprocess
import sys

HERE = os.path.dirname(os.path.abspath(__file__))


def main():
    args = [a for a in sys.argv[1:] if not a.startswith("--")]
    tier = "quick"
    seeds = ["1"]
    for a in sys.argv[1:]:
        if a.startswith("--tier="):
            tier = a.split("=")[1]
        if a.startswith("--seeds="):
            seeds = a.split("=")[1].split(",")
    sid = args[0]
    d = os.path.join(HERE, "seeded", sid)
    meta = json.load(open(os.path.join(d, "meta.json")))
    checks = args[1:] or [meta["property"]]
    if subprocess.run(["git", "-C", "/repo", "status", "--porcelain", "--untracked-files=no"], capture_output=True, text=True).stdout.strip():
        print("refusing: /repo has local modifications")
        return 2
    r = subprocess.run(["git", "-C", "/repo", "apply", os.path.join(d, "patch.diff")], capture_output=True, text=True)
    if r.returncode != 0:
        print("patch does not apply:", r.stderr)
        return 2
    out = {}
    try:
        for c in checks:
            for s in seeds:
                env = dict(os.environ, VERIF_SEED=s)
                p = subprocess.run(["/venv/bin/python", os.path.join(HERE, "check.py"), c, "--tier", tier, "--no-evidence"], env=env,
                                   capture_output=True, text=True, cwd=HERE)
                viol = [l for l in p.stdout.splitlines() if l.startswith("VIOLATION")]
                out["%s@seed%s" % (c, s)] = dict(exit=p.returncode, violations=[v[:300] for v in viol[:3]])
                print("%s seed %s -> exit %d %s" % (c, s, p.returncode, ("; ".join(v.split("#", 1)[-1][:160] for v in viol[:2]))))
                if p.returncode == 2:
                    print(p.stdout[-800:], p.stderr[-800:])
    finally:
        subprocess.run(["git", "-C", "/repo", "checkout", "--", "."], check=True)
        for f in glob.glob(os.path.join(HERE, "replay", "*", "viol-*.json")):
            os.remove(f)
    print(json.dumps(out))
    return 0


if __name__ == "__main__":
    sys.exit(main())
