#!/bin/sh
# validates every evidence file against the schema (tooling venv has jsonschema)
for f in /verif/evidence/*.json; do python3-vt -c "import json,jsonschema,sys; jsonschema.validate(json.load(open(sys.argv[1])), json.load(open('/root/.vp/EVIDENCE.schema.json'))); print('ok', sys.argv[1])" "$f" || exit 1; done
